/-
  C12 — Identifier octets and tags correspond one-to-one.
-/
import Bcder.Model.Tag
import Bcder.Spec.Tlv
import Bcder.Lemmas.Bytes
import Bcder.Lemmas.RunG
namespace Bcder.Props.C12
open Bcder Bcder.Spec Prog

/-! ### octet-level facts -/
theorem b_or80 (b : UInt8) : ((b &&& 0x7f) ||| 0x80).toNat = b.toNat % 128 + 128 := by
  revert b; apply UInt8.forall_bv; decide
theorem b_and7f' (b : UInt8) : (b &&& 0x7f).toNat = b.toNat % 128 := byte_and7f b
theorem b_and1f_ne (b : UInt8) : ((b &&& 0x1f) != 0x1f) = decide (b.toNat % 32 ≠ 31) := by
  revert b; apply UInt8.forall_bv; decide
theorem b_and1f_eq (b : UInt8) : ((b &&& 0x1f) == 0x1f) = decide (b.toNat % 32 = 31) := by
  revert b; apply UInt8.forall_bv; decide
theorem b_and1f_val (b : UInt8) : (b &&& 0x1f).toNat = b.toNat % 32 := byte_and1f b
theorem b_clear20 (b : UInt8) : (b &&& ~~~0x20).toNat = b.toNat - (if b.toNat / 32 % 2 = 1 then 32 else 0) := by
  revert b; apply UInt8.forall_bv; decide
theorem b_cons (b : UInt8) : ((b &&& 0x20) != 0) = decide (b.toNat / 32 % 2 = 1) := by
  revert b; apply UInt8.forall_bv; decide
theorem b_set20 (b : UInt8) : (b ||| 0x20).toNat = b.toNat + (if b.toNat / 32 % 2 = 1 then 0 else 32) := by
  revert b; apply UInt8.forall_bv; decide
theorem b_class (b : UInt8) : (b &&& 0xc0).toNat = b.toNat / 64 * 64 := byte_andc0 b
theorem b_or_low (m : UInt8) (n : UInt8) (hm : m.toNat % 64 = 0) (hn : n.toNat < 64) :
    (m ||| n).toNat = m.toNat + n.toNat := by
  revert m n; apply UInt8.forall_bv; intro m; apply UInt8.forall_bv; revert m; decide +kernel
theorem b_isMinimal (d1 : UInt8) : Tag.isMinimal d1 = (decide (30 < d1.toNat) && decide (d1.toNat ≠ 128)) := by
  revert d1; apply UInt8.forall_bv; decide

/-! ### the reference digits, explicitly -/
theorem digits_1 (n : Nat) (h : n < 128) : digits128 (n + 1) n = [n] := by simp [digits128, h]
theorem digits_fuel : ∀ (f g n : Nat), n < f → n < g → digits128 f n = digits128 g n := by
  intro f
  induction f with
  | zero => intro g n h; omega
  | succ f ih =>
    intro g n hf hg
    cases g with
    | zero => omega
    | succ g =>
      simp only [digits128]
      by_cases h0 : n < 128
      · simp [h0]
      · simp only [h0, if_false]
        have : n / 128 < n := Nat.div_lt_self (by omega) (by omega)
        rw [ih g (n / 128) (by omega) (by omega)]
theorem digits_step (n : Nat) (h : 128 ≤ n) :
    digits128 (n + 1) n = digits128 (n / 128 + 1) (n / 128) ++ [n % 128] := by
  have h0 : ¬ n < 128 := by omega
  have : n / 128 < n := Nat.div_lt_self (by omega) (by omega)
  rw [show digits128 (n + 1) n = (if n < 128 then [n] else digits128 n (n / 128) ++ [n % 128]) from rfl]
  simp only [h0, if_false]
  rw [digits_fuel n (n / 128 + 1) (n / 128) this (by omega)]
theorem digits_2 (n : Nat) (h0 : 128 ≤ n) (h : n < 16384) : digits128 (n + 1) n = [n / 128, n % 128] := by
  rw [digits_step n h0, digits_1 (n / 128) (by omega)]; rfl
theorem digits_3 (n : Nat) (h0 : 16384 ≤ n) (h : n < 2097152) :
    digits128 (n + 1) n = [n / 16384, n / 128 % 128, n % 128] := by
  rw [digits_step n (by omega), digits_2 (n / 128) (by omega) (by omega)]
  have : n / 128 / 128 = n / 16384 := by omega
  rw [this]; rfl

theorem base128_1 (n : Nat) (h : n < 128) : base128 n = [UInt8.ofNat n] := by
  simp [base128, digits_1 n h]
theorem base128_2 (n : Nat) (h0 : 128 ≤ n) (h : n < 16384) :
    base128 n = [UInt8.ofNat (n / 128 + 128), UInt8.ofNat (n % 128)] := by
  simp [base128, digits_2 n h0 h]
theorem base128_3 (n : Nat) (h0 : 16384 ≤ n) (h : n < 2097152) :
    base128 n = [UInt8.ofNat (n / 16384 + 128), UInt8.ofNat (n / 128 % 128 + 128), UInt8.ofNat (n % 128)] := by
  simp [base128, digits_3 n h0 h]

/-- the class mask of class number `cls ∈ {0,1,2,3}` -/
def clsMask (cls : Nat) : UInt8 := UInt8.ofNat (cls * 64)

theorem clsMask_toNat (cls : Nat) (h : cls ≤ 3) : (clsMask cls).toNat = cls * 64 := by
  simp [clsMask, toNat_ofNat]; omega

theorem new_1 (m : UInt8) (num : Nat) (h : num ≤ 30) :
    Tag.new m num = .ok ⟨m ||| UInt8.ofNat num, 0, 0, 0⟩ := by
  have h1 : ¬ num > 0x1fffff := by omega
  have h2 : num ≤ 0x1e := by omega
  simp only [Tag.new, h1, h2, if_false, if_true]
theorem new_2 (m : UInt8) (num : Nat) (h0 : 30 < num) (h : num ≤ 127) :
    Tag.new m num = .ok ⟨m ||| 0x1f, UInt8.ofNat num, 0, 0⟩ := by
  have h1 : ¬ num > 0x1fffff := by omega
  have h2 : ¬ num ≤ 0x1e := by omega
  have h3 : num ≤ 0x7f := by omega
  simp only [Tag.new, h1, h2, h3, if_false, if_true]
theorem new_3 (m : UInt8) (num : Nat) (h0 : 127 < num) (h : num ≤ 16383) :
    Tag.new m num = .ok ⟨m ||| 0x1f, (UInt8.ofNat (num >>> 7) &&& 0x7f) ||| 0x80, UInt8.ofNat num &&& 0x7f, 0⟩ := by
  have h1 : ¬ num > 0x1fffff := by omega
  have h2 : ¬ num ≤ 0x1e := by omega
  have h3 : ¬ num ≤ 0x7f := by omega
  have h4 : num ≤ 0x3fff := by omega
  simp only [Tag.new, h1, h2, h3, h4, if_false, if_true]
theorem new_4 (m : UInt8) (num : Nat) (h0 : 16383 < num) (h : num ≤ 0x1fffff) :
    Tag.new m num = .ok ⟨m ||| 0x1f, (UInt8.ofNat (num >>> 14) &&& 0x7f) ||| 0x80,
      (UInt8.ofNat (num >>> 7) &&& 0x7f) ||| 0x80, UInt8.ofNat num &&& 0x7f⟩ := by
  have h1 : ¬ num > 0x1fffff := by omega
  have h2 : ¬ num ≤ 0x1e := by omega
  have h3 : ¬ num ≤ 0x7f := by omega
  have h4 : ¬ num ≤ 0x3fff := by omega
  simp only [Tag.new, h1, h2, h3, h4, if_false]

/-- the stored octets of `Tag::new(class, number)` as numbers -/
def newOctets (cls num : Nat) : Nat × Nat × Nat × Nat :=
  if num ≤ 30 then (cls * 64 + num, 0, 0, 0)
  else if num ≤ 127 then (cls * 64 + 31, num, 0, 0)
  else if num ≤ 16383 then (cls * 64 + 31, num / 128 + 128, num % 128, 0)
  else (cls * 64 + 31, num / 16384 + 128, num / 128 % 128 + 128, num % 128)

/-- `Tag::new` succeeds for every class and every number up to 0x1FFFFF, and stores these octets -/
theorem new_octets (cls num : Nat) (hc : cls ≤ 3) (hn : num ≤ 0x1fffff) :
    ∃ t, Tag.new (clsMask cls) num = .ok t ∧
      (t.d0.toNat, t.d1.toNat, t.d2.toNat, t.d3.toNat) = newOctets cls num := by
  have hm := clsMask_toNat cls hc
  have hmod : (clsMask cls).toNat % 64 = 0 := by rw [hm]; omega
  have d0 : (clsMask cls ||| 0x1f).toNat = cls * 64 + 31 := by
    rw [b_or_low _ _ hmod (by decide), hm]; rfl
  have z : (0 : UInt8).toNat = 0 := rfl
  unfold newOctets
  by_cases c1 : num ≤ 30
  · refine ⟨_, new_1 _ num c1, ?_⟩
    simp only [c1, if_true, z]
    rw [b_or_low _ _ hmod (by simp [toNat_ofNat]; omega), hm, toNat_ofNat]
    have : num % 256 = num := by omega
    rw [this]
  · by_cases c2 : num ≤ 127
    · refine ⟨_, new_2 _ num (by omega) c2, ?_⟩
      simp only [c1, c2, if_true, if_false, z, d0, toNat_ofNat]
      have : num % 256 = num := by omega
      rw [this]
    · by_cases c3 : num ≤ 16383
      · refine ⟨_, new_3 _ num (by omega) c3, ?_⟩
        simp only [c1, c2, c3, if_true, if_false, z, d0, b_or80, b_and7f', toNat_ofNat, Nat.shiftRight_eq_div_pow]
        have e1 : num / 2 ^ 7 % 256 % 128 = num / 128 := by omega
        have e2 : num % 256 % 128 = num % 128 := by omega
        rw [e1, e2]
      · refine ⟨_, new_4 _ num (by omega) hn, ?_⟩
        simp only [c1, c2, c3, if_false, d0, b_or80, b_and7f', toNat_ofNat, Nat.shiftRight_eq_div_pow]
        have e1 : num / 2 ^ 14 % 256 % 128 = num / 16384 := by omega
        have e2 : num / 2 ^ 7 % 256 % 128 = num / 128 % 128 := by omega
        have e3 : num % 256 % 128 = num % 128 := by omega
        rw [e1, e2, e3]


/-! ### accessors of a tag in terms of its stored octets -/

theorem number_eq (t : Tag) :
    t.number =
      if t.d0.toNat % 32 ≠ 31 then t.d0.toNat % 32
      else if t.d1.toNat < 128 then t.d1.toNat % 128
      else if t.d2.toNat < 128 then (t.d1.toNat % 128) * 128 + t.d2.toNat % 128
      else (t.d1.toNat % 128) * 16384 + (t.d2.toNat % 128) * 128 + t.d3.toNat % 128 := by
  unfold Tag.number
  simp only [b_and1f_ne, byte_and80_eq0, b_and1f_val, b_and7f']
  have m1 : t.d1.toNat % 128 < 128 := Nat.mod_lt _ (by decide)
  have m2 : t.d2.toNat % 128 < 128 := Nat.mod_lt _ (by decide)
  have m3 : t.d3.toNat % 128 < 128 := Nat.mod_lt _ (by decide)
  by_cases h0 : t.d0.toNat % 32 ≠ 31
  · simp [h0]
  · simp only [h0, decide_false, decide_true, Bool.false_eq_true, if_false]
    by_cases h1 : t.d1.toNat < 128
    · simp [h1]
    · simp only [h1, decide_false, Bool.false_eq_true, if_false]
      by_cases h2 : t.d2.toNat < 128
      · simp only [h2, decide_true, if_true]
        rw [shl_or _ _ 7 (by omega)]
      · simp only [h2, decide_false, Bool.false_eq_true, if_false]
        rw [Nat.or_assoc, shl_or _ _ 7 (by omega), shl_or _ _ 14 (by omega)]
        omega

theorem encodedLen_eq (t : Tag) :
    t.encodedLen =
      if t.d0.toNat % 32 ≠ 31 then 1 else if t.d1.toNat < 128 then 2 else if t.d2.toNat < 128 then 3 else 4 := by
  unfold Tag.encodedLen
  simp only [b_and1f_ne, byte_and80_eq0]
  by_cases h0 : t.d0.toNat % 32 ≠ 31
  · simp [h0]
  · simp only [h0, decide_false, decide_true, Bool.false_eq_true, if_false]
    by_cases h1 : t.d1.toNat < 128
    · simp [h1]
    · simp only [h1, decide_false, Bool.false_eq_true, if_false]
      by_cases h2 : t.d2.toNat < 128 <;> simp [h2]

/-- C12.1 — number and class of a constructed tag are those it was constructed with -/
theorem new_number_class (cls num : Nat) (hc : cls ≤ 3) (hn : num ≤ 0x1fffff) :
    ∃ t, Tag.new (clsMask cls) num = .ok t ∧ t.number = num ∧ t.classBits.toNat = cls * 64 := by
  obtain ⟨t, ht, ho⟩ := new_octets cls num hc hn
  refine ⟨t, ht, ?_, ?_⟩
  · rw [number_eq]
    unfold newOctets at ho
    by_cases c1 : num ≤ 30
    · simp only [c1, if_true, Prod.mk.injEq] at ho
      obtain ⟨h0, _⟩ := ho
      have : t.d0.toNat % 32 = num := by omega
      simp [this]; omega
    · by_cases c2 : num ≤ 127
      · simp only [c1, c2, if_true, if_false, Prod.mk.injEq] at ho
        obtain ⟨h0, h1, _⟩ := ho
        have e0 : ¬ t.d0.toNat % 32 ≠ 31 := by omega
        have e1 : t.d1.toNat < 128 := by omega
        simp only [e0, e1, if_false, if_true]; omega
      · by_cases c3 : num ≤ 16383
        · simp only [c1, c2, c3, if_true, if_false, Prod.mk.injEq] at ho
          obtain ⟨h0, h1, h2, _⟩ := ho
          have e0 : ¬ t.d0.toNat % 32 ≠ 31 := by omega
          have e1 : ¬ t.d1.toNat < 128 := by omega
          have e2 : t.d2.toNat < 128 := by omega
          simp only [e0, e1, e2, if_false, if_true]; omega
        · simp only [c1, c2, c3, if_false, Prod.mk.injEq] at ho
          obtain ⟨h0, h1, h2, h3⟩ := ho
          have e0 : ¬ t.d0.toNat % 32 ≠ 31 := by omega
          have e1 : ¬ t.d1.toNat < 128 := by omega
          have e2 : ¬ t.d2.toNat < 128 := by omega
          simp only [e0, e1, e2, if_false]; omega
  · unfold Tag.classBits
    rw [b_class]
    unfold newOctets at ho
    have : t.d0.toNat / 64 = cls := by
      split at ho
      · simp only [Prod.mk.injEq] at ho; omega
      · split at ho
        · simp only [Prod.mk.injEq] at ho; omega
        · split at ho <;> simp only [Prod.mk.injEq] at ho <;> omega
    rw [this]

/-- C12.2 — the written form is the reference (minimal X.690) form, and its size is reported correctly -/
theorem write_eq_spec (cls num : Nat) (c : Bool) (hc : cls ≤ 3) (hn : num ≤ 0x1fffff) :
    ∃ t, Tag.new (clsMask cls) num = .ok t ∧ t.write c = identOctets cls c num ∧
      t.encodedLen = (identOctets cls c num).length := by
  obtain ⟨t, ht, ho⟩ := new_octets cls num hc hn
  refine ⟨t, ht, ?_⟩
  have hlen := encodedLen_eq t
  unfold newOctets at ho
  -- first octet with the constructed bit
  have first : ∀ v, t.d0.toNat = cls * 64 + v → v < 32 →
      (if c then t.d0 ||| 0x20 else t.d0) = UInt8.ofNat (cls * 64 + (if c then 32 else 0) + v) := by
    intro v h0 hv
    apply byte_of_toNat
    cases c with
    | false => simp [h0]
    | true =>
      simp only [if_true]
      rw [b_set20, h0]
      have : (cls * 64 + v) / 32 % 2 = 0 := by omega
      simp [this]; omega
  unfold identOctets Tag.write
  by_cases c1 : num ≤ 30
  · simp only [c1, if_true, Prod.mk.injEq] at ho
    obtain ⟨h0, _⟩ := ho
    have e0 : t.d0.toNat % 32 ≠ 31 := by omega
    have hl1 : t.encodedLen = 1 := by rw [hlen, if_pos e0]
    rw [hl1]; simp only [c1, if_true]
    refine ⟨?_, by simp⟩
    simp only [List.take_succ_cons, List.take_zero]
    rw [first num h0 (by omega)]
  · by_cases c2 : num ≤ 127
    · simp only [c1, c2, if_true, if_false, Prod.mk.injEq] at ho
      obtain ⟨h0, h1, _⟩ := ho
      have e0 : ¬ t.d0.toNat % 32 ≠ 31 := by omega
      have e1 : t.d1.toNat < 128 := by omega
      have hl2 : t.encodedLen = 2 := by rw [hlen, if_neg e0, if_pos e1]
      rw [hl2]; simp only [c1, if_false]
      rw [base128_1 num (by omega)]
      refine ⟨?_, by simp⟩
      simp only [List.take_succ_cons, List.take_zero]
      rw [first 31 h0 (by omega), byte_of_toNat t.d1 num h1]
    · by_cases c3 : num ≤ 16383
      · simp only [c1, c2, c3, if_true, if_false, Prod.mk.injEq] at ho
        obtain ⟨h0, h1, h2, _⟩ := ho
        have e0 : ¬ t.d0.toNat % 32 ≠ 31 := by omega
        have e1 : ¬ t.d1.toNat < 128 := by omega
        have e2 : t.d2.toNat < 128 := by omega
        have hl3 : t.encodedLen = 3 := by rw [hlen, if_neg e0, if_neg e1, if_pos e2]
        rw [hl3]; simp only [c1, if_false]
        rw [base128_2 num (by omega) (by omega)]
        refine ⟨?_, by simp⟩
        simp only [List.take_succ_cons, List.take_zero]
        rw [first 31 h0 (by omega), byte_of_toNat t.d1 _ h1, byte_of_toNat t.d2 _ h2]
      · simp only [c1, c2, c3, if_false, Prod.mk.injEq] at ho
        obtain ⟨h0, h1, h2, h3⟩ := ho
        have e0 : ¬ t.d0.toNat % 32 ≠ 31 := by omega
        have e1 : ¬ t.d1.toNat < 128 := by omega
        have e2 : ¬ t.d2.toNat < 128 := by omega
        have hl4 : t.encodedLen = 4 := by rw [hlen, if_neg e0, if_neg e1, if_neg e2]
        rw [hl4]; simp only [c1, if_false]
        rw [base128_3 num (by omega) (by omega)]
        refine ⟨?_, by simp⟩
        simp only [List.take_succ_cons, List.take_zero]
        rw [first 31 h0 (by omega), byte_of_toNat t.d1 _ h1, byte_of_toNat t.d2 _ h2, byte_of_toNat t.d3 _ h3]


/-! ### the readers -/

theorem tag_ext (t t' : Tag) (h0 : t.d0.toNat = t'.d0.toNat) (h1 : t.d1.toNat = t'.d1.toNat)
    (h2 : t.d2.toNat = t'.d2.toNat) (h3 : t.d3.toNat = t'.d3.toNat) : t = t' := by
  cases t; cases t'
  simp only [Tag.mk.injEq]
  exact ⟨UInt8.toNat_inj.mp h0, UInt8.toNat_inj.mp h1, UInt8.toNat_inj.mp h2, UInt8.toNat_inj.mp h3⟩

/-- the tag a decoder must return for class `cls`, number `num`: the constructed one -/
def tagOf (cls num : Nat) : Tag :=
  match Tag.new (clsMask cls) num with
  | .ok t => t
  | .error _ => default

theorem tagOf_octets (cls num : Nat) (hc : cls ≤ 3) (hn : num ≤ 0x1fffff) :
    ((tagOf cls num).d0.toNat, (tagOf cls num).d1.toNat, (tagOf cls num).d2.toNat, (tagOf cls num).d3.toNat)
      = newOctets cls num := by
  obtain ⟨t, ht, ho⟩ := new_octets cls num hc hn
  simp [tagOf, ht, ho]

/-- how a reference result is expressed as a result of the model reader on a plain source -/
def specResult (bs : Bytes) : Option (Ident × Nat) → Res ((Tag × Bool) × G)
  | none => .error .content
  | some (id, k) => .ok ((tagOf id.cls id.num, id.constructed), G.plain (bs.drop k))

/-- the reader `take_opt_from` after its first octet, in arithmetic form -/
theorem takeOptFrom_cons (b : UInt8) (rest : Bytes) :
    runG Tag.takeOptFrom (G.plain (b :: rest)) =
      let d0 : UInt8 := b &&& ~~~0x20
      let c : Bool := decide (b.toNat / 32 % 2 = 1)
      if b.toNat % 32 ≠ 31 then .ok (some (⟨d0, 0, 0, 0⟩, c), G.plain rest)
      else match rest with
        | [] => .error .content
        | d1 :: r1 =>
          if d1.toNat < 128 then
            (if 30 < d1.toNat then .ok (some (⟨d0, d1, 0, 0⟩, c), G.plain r1) else .error .content)
          else match r1 with
            | [] => .error .content
            | d2 :: r2 =>
              if d2.toNat < 128 then
                (if d1.toNat ≠ 128 then .ok (some (⟨d0, d1, d2, 0⟩, c), G.plain r2) else .error .content)
              else match r2 with
                | [] => .error .content
                | d3 :: r3 =>
                  if d3.toNat < 128 then
                    (if d1.toNat ≠ 128 then .ok (some (⟨d0, d1, d2, d3⟩, c), G.plain r3) else .error .content)
                  else .error .content := by
  have hd0 : ((b &&& ~~~0x20) &&& 0x1f == 0x1f) = decide (b.toNat % 32 = 31) := by
    revert b; apply UInt8.forall_bv; decide
  unfold Tag.takeOptFrom
  simp only [runG_bind, runG_takeOptU8_plain_cons, hd0, b_cons, byte_and80_eq0, b_isMinimal]
  by_cases h0 : b.toNat % 32 = 31
  · have h0' : ¬ b.toNat % 32 ≠ 31 := by omega
    simp only [h0, h0', decide_true, if_true, if_false]
    match rest with
    | [] => simp [runG_bind]
    | d1 :: r1 =>
      simp only [runG_bind, runG_takeU8_plain_cons]
      by_cases h1 : d1.toNat < 128
      · have : d1.toNat ≠ 128 := by omega
        by_cases hm : 30 < d1.toNat <;> simp [h1, hm, this, runG_ite]
      · simp only [h1, decide_false, Bool.false_eq_true, if_false]
        match r1 with
        | [] => simp [runG_bind]
        | d2 :: r2 =>
          simp only [runG_bind, runG_takeU8_plain_cons]
          have g30 : 30 < d1.toNat := by omega
          by_cases h2 : d2.toNat < 128
          · by_cases hm : d1.toNat ≠ 128 <;> simp [h2, hm, g30, runG_ite]
          · simp only [h2, decide_false, Bool.false_eq_true, if_false]
            match r2 with
            | [] => simp [runG_bind]
            | d3 :: r3 =>
              simp only [runG_bind, runG_takeU8_plain_cons]
              by_cases h3 : d3.toNat < 128
              · by_cases hm : d1.toNat ≠ 128 <;> simp [h3, hm, g30, runG_ite]
              · simp [h3]
  · have h0' : b.toNat % 32 ≠ 31 := h0
    simp [h0, h0']


theorem d0_val (b : UInt8) : (b &&& ~~~0x20).toNat = b.toNat / 64 * 64 + b.toNat % 32 := by
  revert b; apply UInt8.forall_bv; decide

/-- the raw octets the reader assembled are those of the constructed tag of the same class and number -/
theorem raw_eq_tagOf (b d1 d2 d3 : UInt8) (cls num : Nat) (hc : cls ≤ 3) (hn : num ≤ 0x1fffff)
    (hcls : cls = b.toNat / 64)
    (h : (b.toNat / 64 * 64 + b.toNat % 32, d1.toNat, d2.toNat, d3.toNat) = newOctets cls num) :
    (⟨b &&& ~~~0x20, d1, d2, d3⟩ : Tag) = tagOf cls num := by
  have ho := tagOf_octets cls num hc hn
  rw [← h] at ho
  simp only [Prod.mk.injEq] at ho
  obtain ⟨h0, h1, h2, h3⟩ := ho
  apply tag_ext
  · simp only; rw [d0_val, h0]
  · exact h1.symm
  · exact h2.symm
  · exact h3.symm

/-- C12.3/4/6 — on EVERY input `take_opt_from` / `take_from` does what the reference reader says:
    the tag returned is the constructed tag of the class and number encoded (so equal class and
    number never give unequal tags and distinct identifier octets never give equal tags), exactly
    the identifier octets are consumed, and truncated, over-long or non-minimal identifiers are
    rejected. -/
theorem takeOptFrom_eq_spec (b : UInt8) (rest : Bytes) :
    runG Tag.takeOptFrom (G.plain (b :: rest)) =
      match readIdent (b :: rest) with
      | none => .error .content
      | some (id, k) => .ok (some (tagOf id.cls id.num, id.constructed), G.plain ((b :: rest).drop k)) := by
  rw [takeOptFrom_cons]
  have hb := byte_lt_256 b
  have hcls : b.toNat / 64 ≤ 3 := by omega
  simp only [readIdent]
  have zero : (0 : UInt8).toNat = 0 := rfl
  have hdec : decide (b.toNat / 32 % 2 = 1) = (b.toNat / 32 % 2 == 1) := by
    cases h : (b.toNat / 32 % 2 == 1) <;> simp_all
  by_cases h0 : b.toNat % 32 = 31
  · have h0' : ¬ b.toNat % 32 ≠ 31 := by omega
    have h0'' : (b.toNat % 32 != 31) = false := by simp [h0]
    simp only [h0', if_false, h0'']
    match rest with
    | [] => simp
    | d1 :: r1 =>
      have hd1 := byte_lt_256 d1
      simp only
      by_cases h1 : d1.toNat < 128
      · by_cases hm : 30 < d1.toNat
        · have hm' : d1.toNat ≥ 31 := by omega
          simp only [h1, hm, hm', if_true, decide_true, Bool.false_eq_true, if_false]
          have e := raw_eq_tagOf b d1 0 0 (b.toNat / 64) d1.toNat hcls (by omega) rfl (by
            unfold newOctets
            have c1 : ¬ d1.toNat ≤ 30 := by omega
            have c2 : d1.toNat ≤ 127 := by omega
            simp only [c1, c2, if_true, if_false, zero]; congr 1; omega)
          simp [e, hdec]
        · have hm' : ¬ d1.toNat ≥ 31 := by omega
          simp [h1, hm, hm']
      · simp only [h1, if_false, decide_false, Bool.false_eq_true]
        by_cases h128 : d1.toNat = 128
        · have : (d1.toNat == 128) = true := by simp [h128]
          simp only [this, if_true]
          match r1 with
          | [] => simp
          | d2 :: r2 =>
            simp only
            by_cases h2 : d2.toNat < 128
            · simp [h2, h128]
            · simp only [h2, if_false]
              match r2 with
              | [] => simp
              | d3 :: r3 => by_cases h3 : d3.toNat < 128 <;> simp [h3, h128]
        · have hne : (d1.toNat == 128) = false := by simp [h128]
          simp only [hne, Bool.false_eq_true, if_false]
          match r1 with
          | [] => simp
          | d2 :: r2 =>
            have hd2 := byte_lt_256 d2
            simp only
            by_cases h2 : d2.toNat < 128
            · simp only [h2, if_true, h128, ne_eq, not_false_eq_true]
              have e := raw_eq_tagOf b d1 d2 0 (b.toNat / 64) ((d1.toNat % 128) * 128 + d2.toNat) hcls (by omega) rfl (by
                unfold newOctets
                have c1 : ¬ (d1.toNat % 128) * 128 + d2.toNat ≤ 30 := by omega
                have c2 : ¬ (d1.toNat % 128) * 128 + d2.toNat ≤ 127 := by omega
                have c3 : (d1.toNat % 128) * 128 + d2.toNat ≤ 16383 := by omega
                simp only [c1, c2, c3, if_true, if_false, zero, Prod.mk.injEq]
                refine ⟨by omega, by omega, by omega, trivial⟩)
              simp [e, hdec]
            · simp only [h2, if_false]
              match r2 with
              | [] => simp
              | d3 :: r3 =>
                have hd3 := byte_lt_256 d3
                simp only
                by_cases h3 : d3.toNat < 128
                · simp only [h3, if_true, h128, ne_eq, not_false_eq_true]
                  have e := raw_eq_tagOf b d1 d2 d3 (b.toNat / 64)
                    (((d1.toNat % 128) * 128 + d2.toNat % 128) * 128 + d3.toNat) hcls (by omega) rfl (by
                    unfold newOctets
                    have c1 : ¬ ((d1.toNat % 128) * 128 + d2.toNat % 128) * 128 + d3.toNat ≤ 30 := by omega
                    have c2 : ¬ ((d1.toNat % 128) * 128 + d2.toNat % 128) * 128 + d3.toNat ≤ 127 := by omega
                    have c3 : ¬ ((d1.toNat % 128) * 128 + d2.toNat % 128) * 128 + d3.toNat ≤ 16383 := by omega
                    simp only [c1, c2, c3, if_false, Prod.mk.injEq]
                    refine ⟨by omega, by omega, by omega, by omega⟩)
                  simp [e, hdec]
                · simp [h3]
  · have h0' : b.toNat % 32 ≠ 31 := h0
    have h0'' : (b.toNat % 32 != 31) = true := by simp [h0]
    simp only [h0', ne_eq, not_false_eq_true, if_true, h0'']
    have e := raw_eq_tagOf b 0 0 0 (b.toNat / 64) (b.toNat % 32) hcls (by omega) rfl (by
      unfold newOctets
      have c1 : b.toNat % 32 ≤ 30 := by omega
      simp only [c1, if_true, zero])
    simp [e, hdec]

theorem takeOptFrom_nil : runG Tag.takeOptFrom (G.plain []) = .ok (none, G.plain []) := by
  simp [Tag.takeOptFrom, runG_bind]

/-- `take_from` on every input -/
theorem takeFrom_eq_spec (bs : Bytes) :
    runG Tag.takeFrom (G.plain bs) = specResult bs (readIdent bs) := by
  unfold Tag.takeFrom
  cases bs with
  | nil => simp [runG_bind, takeOptFrom_nil, readIdent, specResult]
  | cons b rest =>
    simp only [runG_bind, takeOptFrom_eq_spec]
    cases readIdent (b :: rest) with
    | none => simp [specResult]
    | some r => obtain ⟨id, k⟩ := r; simp [specResult]


/-! ### conditional reading -/

/-- a plain source on which `seen` octets have been granted -/
abbrev plainSeen (d : Bytes) (seen : Nat) : G := { data := d, limit := none, frames := [], seen := seen }

theorem runG_peekAt_plain (d : Bytes) (seen i : Nat) :
    runG (peekAt i) (plainSeen d seen) = .ok (d[i]?, plainSeen d (max seen (min (i + 1) d.length))) := by
  simp [peekAt, runG, stepG, G.request, G.view]

theorem runG_skipN_plain (d : Bytes) (seen n : Nat) (h1 : n ≤ d.length) (h2 : n ≤ seen) :
    runG (skipN n) (plainSeen d seen) = .ok ((), plainSeen (d.drop n) (seen - n)) := by
  have a : ¬ d.length < n := by omega
  have b : ¬ seen < n := by omega
  simp [skipN, runG, stepG, G.view, G.advance, a, b]

/-- the constructed tag determines class and number -/
theorem tagOf_inj (c1 n1 c2 n2 : Nat) (h1 : c1 ≤ 3) (h2 : c2 ≤ 3) (hn1 : n1 ≤ 0x1fffff) (hn2 : n2 ≤ 0x1fffff)
    (h : tagOf c1 n1 = tagOf c2 n2) : c1 = c2 ∧ n1 = n2 := by
  obtain ⟨t1, e1, a1, b1⟩ := new_number_class c1 n1 h1 hn1
  obtain ⟨t2, e2, a2, b2⟩ := new_number_class c2 n2 h2 hn2
  have f1 : tagOf c1 n1 = t1 := by simp [tagOf, e1]
  have f2 : tagOf c2 n2 = t2 := by simp [tagOf, e2]
  rw [f1, f2] at h
  subst h
  exact ⟨by omega, by omega⟩

theorem readIdent_bounds (bs : Bytes) (id : Ident) (k : Nat) (h : readIdent bs = some (id, k)) :
    id.cls ≤ 3 ∧ id.num ≤ 0x1fffff ∧ 1 ≤ k ∧ k ≤ bs.length ∧ k ≤ 4 := by
  cases bs with
  | nil => simp [readIdent] at h
  | cons b rest =>
    have hb := byte_lt_256 b
    simp only [readIdent] at h
    split at h
    · simp at h; obtain ⟨h1, h2⟩ := h; subst h1; subst h2; simp; omega
    · match rest, h with
      | [], h => simp at h
      | d1 :: r1, h =>
        have hd1 := byte_lt_256 d1
        simp only at h
        split at h
        · split at h
          · simp at h; obtain ⟨h1, h2⟩ := h; subst h1; subst h2; simp; omega
          · simp at h
        · split at h
          · simp at h
          · match r1, h with
            | [], h => simp at h
            | d2 :: r2, h =>
              have hd2 := byte_lt_256 d2
              simp only at h
              split at h
              · simp at h; obtain ⟨h1, h2⟩ := h; subst h1; subst h2; simp; omega
              · match r2, h with
                | [], h => simp at h
                | d3 :: r3, h =>
                  have hd3 := byte_lt_256 d3
                  simp only at h
                  split at h
                  · simp at h; obtain ⟨h1, h2⟩ := h; subst h1; subst h2; simp; omega
                  · simp at h



/-! ### conditional reading (continued) -/

/-- what conditional reading must do, per the reference reader -/
def specIf (cls num : Nat) (bs : Bytes) : Res (Option Bool × G) :=
  match bs with
  | [] => .ok (none, plainSeen [] 0)
  | _ =>
    match readIdent bs with
    | none => .error .content
    | some (id, k) =>
      if id.cls = cls ∧ id.num = num then .ok (some id.constructed, plainSeen (bs.drop k) 0)
      else .ok (none, plainSeen bs k)

/-- C12.5 — conditional reading consumes the identifier exactly when it is the identifier of the
    expected tag (either constructed flag), leaves the source untouched when the input is empty or
    starts with a complete identifier of another tag, and rejects truncated / over-long /
    non-minimal identifiers.  (`plainSeen d k`: data `d`, nothing consumed, `k` octets looked at.) -/
theorem takeFromIf_eq_spec (cls num : Nat) (hc : cls ≤ 3) (hn : num ≤ 0x1fffff) (bs : Bytes) :
    runG (tagOf cls num).takeFromIf (plainSeen bs 0) = specIf cls num bs := by
  cases bs with
  | nil => simp [Tag.takeFromIf, runG_bind, runG_peekAt_plain, specIf]
  | cons b rest =>
    have hb := byte_lt_256 b
    have hcls : b.toNat / 64 ≤ 3 := by omega
    have zero : (0 : UInt8).toNat = 0 := rfl
    have hdec : decide (b.toNat / 32 % 2 = 1) = (b.toNat / 32 % 2 == 1) := by
      cases h : (b.toNat / 32 % 2 == 1) <;> simp_all
    have hd0 : ((b &&& ~~~0x20) &&& 0x1f == 0x1f) = decide (b.toNat % 32 = 31) := by
      revert b; apply UInt8.forall_bv; decide
    have hd0p : ((b &&& ~~~0x20) &&& 0x1f = 0x1f) ↔ b.toNat % 32 = 31 := by
      have h := hd0
      by_cases hx : (b &&& ~~~0x20) &&& 0x1f = 0x1f
      · by_cases hy : b.toNat % 32 = 31
        · exact ⟨fun _ => hy, fun _ => hx⟩
        · simp [hx, hy] at h
      · by_cases hy : b.toNat % 32 = 31
        · simp [hx, hy] at h
        · exact ⟨fun h' => absurd h' hx, fun h' => absurd h' hy⟩
    have eqv : ∀ (c' n' : Nat), c' ≤ 3 → n' ≤ 0x1fffff →
        (tagOf c' n' = tagOf cls num ↔ (c' = cls ∧ n' = num)) := by
      intro c' n' h1 h2
      constructor
      · exact tagOf_inj c' n' cls num h1 hc h2 hn
      · rintro ⟨rfl, rfl⟩; rfl
    unfold Tag.takeFromIf specIf
    by_cases h0 : b.toNat % 32 = 31
    · have h0'' : (b.toNat % 32 != 31) = false := by simp [h0]
      match rest with
      | [] => simp [runG_bind, runG_peekAt_plain, runG_ite, hd0p, b_isMinimal, byte_and80_eq0, readIdent, h0]
      | d1 :: r1 =>
        have hd1 := byte_lt_256 d1
        by_cases h1 : d1.toNat < 128
        · by_cases hm : 30 < d1.toNat
          · have hm' : d1.toNat ≥ 31 := by omega
            have hne : d1.toNat ≠ 128 := by omega
            have e := raw_eq_tagOf b d1 0 0 (b.toNat / 64) d1.toNat hcls (by omega) rfl (by
              unfold newOctets
              have c1 : ¬ d1.toNat ≤ 30 := by omega
              have c2 : d1.toNat ≤ 127 := by omega
              simp only [c1, c2, if_true, if_false, zero]; congr 1; omega)
            have hlen : (⟨b &&& ~~~0x20, d1, 0, 0⟩ : Tag).encodedLen = 2 := by
              have hv' : ¬ (b &&& ~~~0x20).toNat % 32 ≠ 31 := by rw [d0_val]; omega
              rw [encodedLen_eq, if_neg hv', if_pos h1]
            simp only [runG_bind, runG_peekAt_plain, runG_ite, List.getElem?_cons_zero, List.getElem?_cons_succ,
              hd0, b_cons, byte_and80_eq0, b_isMinimal, h0, h1, hm, hne, hm', decide_true, decide_false, if_true, List.length_cons,
              ne_eq, not_false_eq_true, Bool.and_self, readIdent, h0'', Bool.false_eq_true, if_false, not_true_eq_false]
            by_cases hq : (⟨b &&& ~~~0x20, d1, 0, 0⟩ : Tag) = tagOf cls num
            · have hq' := hq; rw [e] at hq'
              have hcn := (eqv _ _ hcls (by omega : d1.toNat ≤ 0x1fffff)).mp hq'
              simp only [hq, if_true]
              rw [← hq, hlen, runG_skipN_plain _ _ 2 (by simp) (by omega)]
              simp [hcn, hdec]
            · have hq' := hq; rw [e] at hq'
              have hcn : ¬ (b.toNat / 64 = cls ∧ d1.toNat = num) := fun h => hq' ((eqv _ _ hcls (by omega : d1.toNat ≤ 0x1fffff)).mpr h)
              simp [hq, hcn]
          · have hm' : ¬ d1.toNat ≥ 31 := by omega
            simp [runG_bind, runG_peekAt_plain, runG_ite, hd0p, b_isMinimal, byte_and80_eq0, readIdent, h0, h1, hm, hm']
        · have g30 : 30 < d1.toNat := by omega
          match r1 with
          | [] =>
            by_cases h128 : d1.toNat = 128 <;>
              simp [runG_bind, runG_peekAt_plain, runG_ite, hd0p, b_isMinimal, byte_and80_eq0, readIdent, h0, h1, h128]
          | d2 :: r2 =>
            have hd2 := byte_lt_256 d2
            by_cases h128 : d1.toNat = 128
            · match r2 with
              | [] =>
                by_cases h2 : d2.toNat < 128 <;>
                  simp [runG_bind, runG_peekAt_plain, runG_ite, hd0p, b_isMinimal, byte_and80_eq0, readIdent, h0, h1, h2, h128]
              | d3 :: r3 =>
                by_cases h2 : d2.toNat < 128 <;> by_cases h3 : d3.toNat < 128 <;>
                  simp [runG_bind, runG_peekAt_plain, runG_ite, hd0p, b_isMinimal, byte_and80_eq0, readIdent, h0, h1, h2, h3, h128]
            · have hne : (d1.toNat == 128) = false := by simp [h128]
              by_cases h2 : d2.toNat < 128
              · have e := raw_eq_tagOf b d1 d2 0 (b.toNat / 64) ((d1.toNat % 128) * 128 + d2.toNat) hcls (by omega) rfl (by
                  unfold newOctets
                  have c1 : ¬ (d1.toNat % 128) * 128 + d2.toNat ≤ 30 := by omega
                  have c2 : ¬ (d1.toNat % 128) * 128 + d2.toNat ≤ 127 := by omega
                  have c3 : (d1.toNat % 128) * 128 + d2.toNat ≤ 16383 := by omega
                  simp only [c1, c2, c3, if_true, if_false, zero, Prod.mk.injEq]
                  refine ⟨by omega, by omega, by omega, trivial⟩)
                have hlen : (⟨b &&& ~~~0x20, d1, d2, 0⟩ : Tag).encodedLen = 3 := by
                  have hv' : ¬ (b &&& ~~~0x20).toNat % 32 ≠ 31 := by rw [d0_val]; omega
                  rw [encodedLen_eq, if_neg hv', if_neg h1, if_pos h2]
                simp only [runG_bind, runG_peekAt_plain, runG_ite, List.getElem?_cons_zero, List.getElem?_cons_succ,
                  hd0, b_cons, byte_and80_eq0, b_isMinimal, h0, h1, h2, g30, h128, hne, decide_true, decide_false, if_true, List.length_cons,
                  ne_eq, not_false_eq_true, Bool.and_self, readIdent, h0'', Bool.false_eq_true, if_false, not_true_eq_false]
                by_cases hq : (⟨b &&& ~~~0x20, d1, d2, 0⟩ : Tag) = tagOf cls num
                · have hq' := hq; rw [e] at hq'
                  have hcn := (eqv _ _ hcls (by omega : (d1.toNat % 128) * 128 + d2.toNat ≤ 0x1fffff)).mp hq'
                  simp only [hq, if_true]
                  rw [← hq, hlen, runG_skipN_plain _ _ 3 (by simp) (by omega)]
                  simp [hcn, hdec]
                · have hq' := hq; rw [e] at hq'
                  have hcn : ¬ (b.toNat / 64 = cls ∧ (d1.toNat % 128) * 128 + d2.toNat = num) := fun h => hq' ((eqv _ _ hcls (by omega : (d1.toNat % 128) * 128 + d2.toNat ≤ 0x1fffff)).mpr h)
                  simp [hq, hcn]
              · match r2 with
                | [] =>
                  simp [runG_bind, runG_peekAt_plain, runG_ite, hd0p, b_isMinimal, byte_and80_eq0, readIdent, h0, h1, h2, h128]
                | d3 :: r3 =>
                  have hd3 := byte_lt_256 d3
                  by_cases h3 : d3.toNat < 128
                  · have e := raw_eq_tagOf b d1 d2 d3 (b.toNat / 64)
                      (((d1.toNat % 128) * 128 + d2.toNat % 128) * 128 + d3.toNat) hcls (by omega) rfl (by
                      unfold newOctets
                      have c1 : ¬ ((d1.toNat % 128) * 128 + d2.toNat % 128) * 128 + d3.toNat ≤ 30 := by omega
                      have c2 : ¬ ((d1.toNat % 128) * 128 + d2.toNat % 128) * 128 + d3.toNat ≤ 127 := by omega
                      have c3 : ¬ ((d1.toNat % 128) * 128 + d2.toNat % 128) * 128 + d3.toNat ≤ 16383 := by omega
                      simp only [c1, c2, c3, if_false, Prod.mk.injEq]
                      refine ⟨by omega, by omega, by omega, by omega⟩)
                    have hlen : (⟨b &&& ~~~0x20, d1, d2, d3⟩ : Tag).encodedLen = 4 := by
                      have hv' : ¬ (b &&& ~~~0x20).toNat % 32 ≠ 31 := by rw [d0_val]; omega
                      rw [encodedLen_eq, if_neg hv', if_neg h1, if_neg h2]
                    simp only [runG_bind, runG_peekAt_plain, runG_ite, List.getElem?_cons_zero, List.getElem?_cons_succ,
                      hd0, b_cons, byte_and80_eq0, b_isMinimal, h0, h1, h2, h3, g30, h128, hne, decide_true, decide_false, if_true, List.length_cons,
                      ne_eq, not_false_eq_true, Bool.and_self, readIdent, h0'', Bool.false_eq_true, if_false, not_true_eq_false]
                    by_cases hq : (⟨b &&& ~~~0x20, d1, d2, d3⟩ : Tag) = tagOf cls num
                    · have hq' := hq; rw [e] at hq'
                      have hcn := (eqv _ _ hcls (by omega : ((d1.toNat % 128) * 128 + d2.toNat % 128) * 128 + d3.toNat ≤ 0x1fffff)).mp hq'
                      simp only [hq, if_true]
                      rw [← hq, hlen, runG_skipN_plain _ _ 4 (by simp) (by omega)]
                      simp [hcn, hdec]
                    · have hq' := hq; rw [e] at hq'
                      have hcn : ¬ (b.toNat / 64 = cls ∧ ((d1.toNat % 128) * 128 + d2.toNat % 128) * 128 + d3.toNat = num) := fun h => hq' ((eqv _ _ hcls (by omega : ((d1.toNat % 128) * 128 + d2.toNat % 128) * 128 + d3.toNat ≤ 0x1fffff)).mpr h)
                      simp [hq, hcn]
                  · simp [runG_bind, runG_peekAt_plain, runG_ite, hd0p, b_isMinimal, byte_and80_eq0, readIdent, h0, h1, h2, h3, h128]
    · have h0'' : (b.toNat % 32 != 31) = true := by simp [h0]
      have e := raw_eq_tagOf b 0 0 0 (b.toNat / 64) (b.toNat % 32) hcls (by omega) rfl (by
        unfold newOctets
        have c1 : b.toNat % 32 ≤ 30 := by omega
        simp only [c1, if_true, zero])
      have hlen : (⟨b &&& ~~~0x20, 0, 0, 0⟩ : Tag).encodedLen = 1 := by
        have hv : (b &&& ~~~0x20).toNat % 32 ≠ 31 := by rw [d0_val]; omega
        rw [encodedLen_eq, if_pos hv]
      simp only [runG_bind, runG_peekAt_plain, runG_ite, List.getElem?_cons_zero, List.getElem?_cons_succ,
        hd0, b_cons, byte_and80_eq0, b_isMinimal, h0, decide_true, decide_false, if_true, List.length_cons,
        ne_eq, not_false_eq_true, Bool.and_self, readIdent, h0'', Bool.false_eq_true, if_false, not_true_eq_false]
      by_cases hq : (⟨b &&& ~~~0x20, 0, 0, 0⟩ : Tag) = tagOf cls num
      · have hq' := hq; rw [e] at hq'
        have hcn := (eqv _ _ hcls (by omega : b.toNat % 32 ≤ 0x1fffff)).mp hq'
        simp only [hq, if_true]
        rw [← hq, hlen, runG_skipN_plain _ _ 1 (by simp) (by omega)]
        simp [hcn, hdec]
      · have hq' := hq; rw [e] at hq'
        have hcn : ¬ (b.toNat / 64 = cls ∧ b.toNat % 32 = num) := fun h => hq' ((eqv _ _ hcls (by omega : b.toNat % 32 ≤ 0x1fffff)).mpr h)
        simp [hq, hcn]

/-! ### the predefined constants -/

/-- universal tag numbers of X.680 (table 1) for the constants the readers of the model use -/
def universalNumbers : List (Tag × Nat) :=
  [(Tag.END_OF_VALUE, 0), (Tag.BOOLEAN, 1), (Tag.INTEGER, 2), (Tag.BIT_STRING, 3), (Tag.OCTET_STRING, 4),
   (Tag.NULL, 5), (Tag.OID, 6), (Tag.UTF8_STRING, 12), (Tag.SEQUENCE, 16), (Tag.SET, 17),
   (Tag.NUMERIC_STRING, 18), (Tag.PRINTABLE_STRING, 19), (Tag.IA5_STRING, 22)]

/-- **the predefined constants are the universal tags of their X.680 numbers**: each literal constant
    (`Tag([n, 0, 0, 0])` in src/tag.rs) is what `Tag::universal(n)` builds, so everything proved for
    `tagOf` (identifier octets, reading back, selective reading) holds for it -/
theorem consts_universal : ∀ p ∈ universalNumbers, p.1 = tagOf 0 p.2 := by decide

/-- …and they are pairwise different -/
theorem consts_distinct : (universalNumbers.map (·.1)).Nodup := by decide

/-- the identifier octets of every predefined universal or context-specific tag with a number below
    31 are the single octet class·64 + (32 if constructed) + number -/
theorem low_tag_octets (cls num : Nat) (c : Bool) (hc : cls ≤ 3) (hn : num ≤ 30) :
    (tagOf cls num).write c = [UInt8.ofNat (cls * 64 + (if c then 32 else 0) + num)] := by
  obtain ⟨t, ht, hw, _⟩ := write_eq_spec cls num c hc (by omega)
  have : tagOf cls num = t := by simp [tagOf, ht]
  rw [this, hw]
  simp [identOctets, hn]

end Bcder.Props.C12
