/-
  C20 — Object identifiers round-trip between text, arcs and encoding.

  All theorems are for ALL inputs (no size bounds); the model is `Bcder.Model.Oid` (src/oid.rs), the
  reference is `Bcder.Spec.Values` (`arcsToContent`, `subIds`, `subIdValue`, `contentToArcs`,
  `decimal`, `dotted`, `parseArc`, `splitOn`, `parseOid`) and `Spec.base128`.

  1. text → encoding
     `fromStr_eq_spec`       for EVERY octet string `s`: `Oid.fromStr s = Spec.parseOid s` (the X.690
                             encoding of the arcs, or an error; `fromStr` is total, so never a panic).
                             Sub-lemmas `splitDot_eq`, `parseU32_eq` (early-abort loop = check digits,
                             then value, then range), `encodeItem_eq` (v < 2^32), `parseAll_eq`.
  2. acceptance
     `checkContent_iff`, `checkContent_iff'`   accepted ⇔ non-empty and last octet < 128;
     `checkContent_eq_subIds`                  = the reference splitter succeeds;
     `fromPrimitive_run`, `skipPrimitive_run`, `skipIfPrimitive_run` (+ `…_exhausted` with the
     framework's exhaustion check, `take_skip_alike`): on the content window `c` of a primitive value,
     taking returns exactly `c` / skipping returns unit, window consumed, iff `checkContent c`, else
     `Err::content`; match-and-skip succeeds iff the content octets equal the expected ones.
  3. iterator and numeric conversion
     `components_eq`, `components_accepted`  on every accepted content the iterator ends without panic
                             and within fuel and yields the reference sub-identifiers, the first twice;
     `components_reject`, `components_ok_iff`  on non-empty rejected content it panics (as in Rust);
     `toU32_eq`              EVERY non-empty component (minimal or not): "too large" (more than 5
                             octets, or 5 with bits 5–7 of the first set) or exactly the arc of the
                             sub-identifier value — never a wrong number;
     `toU32_base128`         minimal sub-identifier of ANY v: `some (arc)` if v < 2^32, else `none`;
     `subIdValue_base128`, `base128_isSubId`, `subIds_arcs`, `contentToArcs_arcs` (reference sanity);
     `components_arcs`, `numbers_arcs`, `numbers_arcs_fit`  arcs → encoding → iterator/`to_u32` gives
                             back the arcs (and "too large" for those not fitting 32 bits).
  4. display
     `decimal_eq`            the model's `toString`-based decimal text = reference decimal text;
     `display_numbers`       every content: display = dotted text of the reported numbers;
     `display_arcs`          valid arcs fitting 32 bits: `display (arcsToContent arcs) = dotted arcs`.
  5. round trips
     `fromStr_some`, `display_fromStr`   a successful parse yields accepted content whose arcs,
                             numbers and displayed text are those of the input (canonical text);
     `fromStr_dotted`        parsing the canonical text of valid arcs gives their encoding;
     `fromStr_display_fromStr`  parse ∘ display ∘ parse = parse.

  NOT covered: the `PartialEq`/`Eq`/`Hash` impls of `Oid` (the model has no item for them: in the
  Rust they delegate to `self.0.as_ref()`, the content octets, which in the model IS the value
  returned by `fromPrimitive_run`, so only match-and-skip is a theorem here); non-minimal sub-identifiers (leading 0x80) are covered by
  `toU32_eq` and `components_eq` but are outside `toU32_base128` / the round trips; `Oid::skip_if`
  around the closure (tag matching) belongs to C02/C12; the connection of `runG0` to arbitrary
  sources is C07.
-/
import Bcder.Model.Oid
import Bcder.Spec.Values
import Bcder.Lemmas.Bytes
import Bcder.Props.C12
import Bcder.Props.C02
namespace Bcder.Props.C20
open Bcder Bcder.Spec Prog
open Bcder.Props.C02 (St run_getLimit run_need run_takeAll run_limitedExhausted)

/-! ## 1. text → encoding : `Oid.fromStr = Spec.parseOid` on every octet string -/

theorem splitDot_eq (s : Bytes) : Oid.splitDot s = Spec.splitOn 0x2E s := by
  induction s with
  | nil => rfl
  | cons b rest ih =>
    simp only [Oid.splitDot, Spec.splitOn, ih]
    cases Spec.splitOn 0x2E rest <;> rfl

/-- the step function of the model's digit loop -/
def stepM (acc : Option Nat) (d : UInt8) : Option Nat :=
  match acc with
  | none => none
  | some v =>
    if d ≥ 0x30 && d ≤ 0x39 then
      let v' := v * 10 + (d.toNat - 0x30)
      if v' ≥ 2 ^ 32 then none else some v'
    else none

/-- the step function of the reference value -/
def stepS (acc : Nat) (d : UInt8) : Nat := acc * 10 + (d.toNat - 48)

def isDigit (d : UInt8) : Bool := d.toNat ≥ 48 && d.toNat ≤ 57

theorem foldl_stepM_none (ds : Bytes) : ds.foldl stepM none = none := by
  induction ds with
  | nil => rfl
  | cons d ds ih => simpa [List.foldl, stepM] using ih

theorem foldl_stepS_mono (ds : Bytes) : ∀ a, a ≤ ds.foldl stepS a := by
  induction ds with
  | nil => intro a; exact Nat.le_refl _
  | cons d ds ih =>
    intro a
    have := ih (stepS a d)
    simp only [List.foldl]
    unfold stepS at this ⊢
    omega

theorem digit_test (d : UInt8) : (decide (d ≥ 0x30) && decide (d ≤ 0x39)) = isDigit d := by
  unfold isDigit
  simp only [ge_iff_le, UInt8.le_iff_toNat_le]
  rfl

/-- the loop invariant: the early-aborting loop equals "all digits, then the value, then the range
    check" -/
theorem foldl_stepM (ds : Bytes) : ∀ v, v < 2 ^ 32 →
    ds.foldl stepM (some v) =
      if ds.all isDigit && decide (ds.foldl stepS v < 2 ^ 32) then some (ds.foldl stepS v) else none := by
  induction ds with
  | nil => intro v hv; simp [hv]
  | cons d ds ih =>
    intro v hv
    simp only [List.foldl, List.all_cons]
    by_cases hd : isDigit d = true
    · have hstep : stepM (some v) d =
          if v * 10 + (d.toNat - 48) ≥ 2 ^ 32 then none else some (v * 10 + (d.toNat - 48)) := by
        simp only [stepM, digit_test, hd, if_true]
      by_cases hov : v * 10 + (d.toNat - 48) ≥ 2 ^ 32
      · have hm := foldl_stepS_mono ds (stepS v d)
        have : ¬ (ds.foldl stepS (stepS v d) < 2 ^ 32) := by unfold stepS at hm ⊢; omega
        rw [hstep]; simp only [hov, if_true, foldl_stepM_none]
        simp [this]
      · rw [hstep]; simp only [hov, if_false]
        rw [ih _ (by omega)]
        simp only [hd, Bool.true_and]
        rfl
    · have hstep : stepM (some v) d = none := by
        simp only [stepM, digit_test, hd]; rfl
      rw [hstep, foldl_stepM_none]
      simp [hd]

/-- optional leading `+` removed -/
def strip (s : Bytes) : Bytes :=
  match s with
  | b :: rest => if b == 0x2B then rest else s
  | [] => []

def parseM (ds : Bytes) : Option Nat := if ds.isEmpty then none else ds.foldl stepM (some 0)
def parseS (ds : Bytes) : Option Nat :=
  if ds.isEmpty || !ds.all isDigit then none
  else if ds.foldl stepS 0 < 2 ^ 32 then some (ds.foldl stepS 0) else none

theorem parseU32_strip (x : Bytes) : Oid.parseU32 x = parseM (strip x) := by
  cases x <;> rfl
theorem parseArc_strip (x : Bytes) : Spec.parseArc x = parseS (strip x) := by
  cases x <;> rfl

theorem parseM_eq (ds : Bytes) : parseM ds = parseS ds := by
  unfold parseM parseS
  by_cases he : ds.isEmpty = true
  · simp [he]
  · simp only [he, Bool.false_or]
    rw [foldl_stepM ds 0 (by decide)]
    by_cases ha : ds.all isDigit = true
    · simp [ha]
    · simp [ha]

/-- `u32::from_str` as modelled is the reference arc parser, on every octet string -/
theorem parseU32_eq (x : Bytes) : Oid.parseU32 x = Spec.parseArc x := by
  rw [parseU32_strip, parseArc_strip, parseM_eq]

theorem parseS_lt (ds : Bytes) (v : Nat) (h : parseS ds = some v) : v < 2 ^ 32 := by
  unfold parseS at h
  split at h
  · cases h
  · split at h
    · cases h; assumption
    · cases h

theorem parseArc_lt (x : Bytes) (v : Nat) (h : Spec.parseArc x = some v) : v < 2 ^ 32 := by
  rw [parseArc_strip] at h; exact parseS_lt _ _ h

/-! ### `encodeItem` is the X.690 base-128 form -/

open Bcder.Props.C12 (digits_1 digits_2 digits_3 digits_step digits_fuel base128_1 base128_2 base128_3)

theorem digits_4 (n : Nat) (h0 : 2097152 ≤ n) (h : n < 268435456) :
    digits128 (n + 1) n = [n / 2097152, n / 16384 % 128, n / 128 % 128, n % 128] := by
  rw [digits_step n (by omega), digits_3 (n / 128) (by omega) (by omega)]
  have e1 : n / 128 / 16384 = n / 2097152 := by omega
  have e2 : n / 128 / 128 = n / 16384 := by omega
  rw [e1, e2]; rfl

theorem digits_5 (n : Nat) (h0 : 268435456 ≤ n) (h : n < 34359738368) :
    digits128 (n + 1) n = [n / 268435456, n / 2097152 % 128, n / 16384 % 128, n / 128 % 128, n % 128] := by
  rw [digits_step n (by omega), digits_4 (n / 128) (by omega) (by omega)]
  have e1 : n / 128 / 2097152 = n / 268435456 := by omega
  have e2 : n / 128 / 16384 = n / 2097152 := by omega
  have e3 : n / 128 / 128 = n / 16384 := by omega
  rw [e1, e2, e3]; rfl

theorem base128_4 (n : Nat) (h0 : 2097152 ≤ n) (h : n < 268435456) :
    base128 n = [UInt8.ofNat (n / 2097152 + 128), UInt8.ofNat (n / 16384 % 128 + 128),
      UInt8.ofNat (n / 128 % 128 + 128), UInt8.ofNat (n % 128)] := by
  simp [base128, digits_4 n h0 h]

theorem base128_5 (n : Nat) (h0 : 268435456 ≤ n) (h : n < 34359738368) :
    base128 n = [UInt8.ofNat (n / 268435456 + 128), UInt8.ofNat (n / 2097152 % 128 + 128),
      UInt8.ofNat (n / 16384 % 128 + 128), UInt8.ofNat (n / 128 % 128 + 128), UInt8.ofNat (n % 128)] := by
  simp [base128, digits_5 n h0 h]

theorem nat_or80 (x : Nat) (h : x < 128) : x ||| 0x80 = x + 128 := by
  have := Nat.two_pow_add_eq_or_of_lt (i := 7) (b := x) h 1
  rw [Nat.or_comm]
  simp only [Nat.reducePow, Nat.mul_one] at this
  omega

theorem nat_and7f (x : Nat) : x &&& 0x7F = x % 128 := Nat.and_two_pow_sub_one_eq_mod x 7

theorem hi_octet (v k : Nat) : ((v >>> k) &&& 0x7F) ||| 0x80 = v / 2 ^ k % 128 + 128 := by
  rw [nat_and7f, Nat.shiftRight_eq_div_pow, nat_or80 _ (Nat.mod_lt _ (by decide))]

/-- the octets `FromStr` writes for one `u32` are the X.690 sub-identifier octets -/
theorem encodeItem_eq (v : Nat) (hv : v < 2 ^ 32) : Oid.encodeItem v = base128 v := by
  unfold Oid.encodeItem
  have top : (v >>> 28) ||| 0x80 = v / 268435456 + 128 := by
    rw [Nat.shiftRight_eq_div_pow, nat_or80 _ (by omega)]
  simp only [hi_octet, top]
  simp only [nat_and7f, Nat.reducePow]
  by_cases h1 : v < 128
  · rw [base128_1 v h1]
    have a1 : ¬ v > 0x0FFFFFFF := by omega
    have a2 : ¬ v > 0x001FFFFF := by omega
    have a3 : ¬ v > 0x00003FFF := by omega
    have a4 : ¬ v > 0x0000007F := by omega
    simp only [a1, a2, a3, a4, if_false, List.nil_append, Nat.mod_eq_of_lt h1]
  · by_cases h2 : v < 16384
    · rw [base128_2 v (by omega) h2]
      have a1 : ¬ v > 0x0FFFFFFF := by omega
      have a2 : ¬ v > 0x001FFFFF := by omega
      have a3 : ¬ v > 0x00003FFF := by omega
      have a4 : v > 0x0000007F := by omega
      have e : v / 128 % 128 = v / 128 := by omega
      simp only [a1, a2, a3, a4, if_false, if_true, List.nil_append, List.cons_append, e]
    · by_cases h3 : v < 2097152
      · rw [base128_3 v (by omega) h3]
        have a1 : ¬ v > 0x0FFFFFFF := by omega
        have a2 : ¬ v > 0x001FFFFF := by omega
        have a3 : v > 0x00003FFF := by omega
        have a4 : v > 0x0000007F := by omega
        have e : v / 16384 % 128 = v / 16384 := by omega
        simp only [a1, a2, a3, a4, if_false, if_true, List.nil_append, List.cons_append, e]
      · by_cases h4 : v < 268435456
        · rw [base128_4 v (by omega) h4]
          have a1 : ¬ v > 0x0FFFFFFF := by omega
          have a2 : v > 0x001FFFFF := by omega
          have a3 : v > 0x00003FFF := by omega
          have a4 : v > 0x0000007F := by omega
          have e : v / 2097152 % 128 = v / 2097152 := by omega
          simp only [a1, a2, a3, a4, if_false, if_true, List.nil_append, List.cons_append, e]
        · rw [base128_5 v (by omega) (by omega)]
          have a1 : v > 0x0FFFFFFF := by omega
          have a2 : v > 0x001FFFFF := by omega
          have a3 : v > 0x00003FFF := by omega
          have a4 : v > 0x0000007F := by omega
          simp only [a1, a2, a3, a4, if_true, List.nil_append, List.cons_append]

/-! ### the whole parser -/

theorem parseAll_eq (xs : List Bytes) : Oid.parseAll xs = xs.mapM Spec.parseArc := by
  induction xs with
  | nil => rfl
  | cons x xs ih =>
    rw [List.mapM_cons, ← ih, ← parseU32_eq]
    rfl

theorem mapM_lt (xs : List Bytes) : ∀ vs, xs.mapM Spec.parseArc = some vs → ∀ v ∈ vs, v < 2 ^ 32 := by
  induction xs with
  | nil => intro vs h v hv; simp at h; subst h; cases hv
  | cons x xs ih =>
    intro vs h v hv
    rw [List.mapM_cons] at h
    cases hx : Spec.parseArc x with
    | none => simp [hx] at h
    | some a =>
      cases hxs : xs.mapM Spec.parseArc with
      | none => simp [hx, hxs] at h
      | some as =>
        simp [hx, hxs] at h
        subst h
        cases hv with
        | head => exact parseArc_lt x _ hx
        | tail _ hm => exact ih as hxs v hm

theorem flatMap_encode (vs : List Nat) (h : ∀ v ∈ vs, v < 2 ^ 32) :
    vs.flatMap Oid.encodeItem = vs.flatMap base128 := by
  induction vs with
  | nil => rfl
  | cons v vs ih =>
    simp only [List.flatMap_cons]
    rw [encodeItem_eq v (h v (List.mem_cons_self)), ih (fun w hw => h w (List.mem_cons_of_mem _ hw))]

/-- **C20, text → encoding.**  For EVERY octet string `s`, `Oid::from_str` (as modelled: a total
    function into `Option`, so no panic) returns exactly what the reference parser returns: the
    X.690 content octets of the arcs written in `s`, or an error. -/
theorem fromStr_eq_spec (s : Bytes) : Oid.fromStr s = Spec.parseOid s := by
  unfold Oid.fromStr Spec.parseOid
  rw [splitDot_eq]
  cases hsp : Spec.splitOn 0x2E s with
  | nil => rfl
  | cons x t =>
    cases t with
    | nil =>
      simp only [List.mapM_cons, List.mapM_nil]
      cases Spec.parseArc x <;> rfl
    | cons y rest =>
      simp only [List.mapM_cons, parseU32_eq, parseAll_eq]
      cases hx : Spec.parseArc x with
      | none => rfl
      | some a0 =>
        cases hy : Spec.parseArc y with
        | none =>
          show (if a0 > 2 then none else none) = none
          split <;> rfl
        | some a1 =>
          cases hr : rest.mapM Spec.parseArc with
          | none =>
            show (if a0 > 2 then none else if (decide (a0 < 2) && decide (a1 ≥ 40)) = true then none else
              if 40 * a0 + a1 ≥ 2 ^ 32 then none else none) = none
            repeat' split
            all_goals rfl
          | some others =>
            show (if a0 > 2 then none else if (decide (a0 < 2) && decide (a1 ≥ 40)) = true then none else
              if 40 * a0 + a1 ≥ 2 ^ 32 then none else
                some (((40 * a0 + a1) :: others).flatMap Oid.encodeItem)) =
              (if a0 > 2 then none else if (decide (a0 < 2) && decide (a1 ≥ 40)) = true then none else
              if 40 * a0 + a1 ≥ 2 ^ 32 then none else some (arcsToContent (a0 :: a1 :: others)))
            by_cases h1 : a0 > 2
            · simp only [h1, if_true]
            · simp only [h1, if_false]
              by_cases h2 : (decide (a0 < 2) && decide (a1 ≥ 40)) = true
              · simp only [h2, if_true]
              · simp only [h2]
                by_cases h3 : 40 * a0 + a1 ≥ 2 ^ 32
                · simp only [h3, if_true]
                · simp only [h3, if_false]
                  have hall : ∀ v ∈ ((40 * a0 + a1) :: others), v < 2 ^ 32 := by
                    intro v hv
                    cases hv with
                    | head => omega
                    | tail _ hm => exact mapM_lt rest others hr v hm
                  rw [flatMap_encode _ hall]
                  rfl

/-! ## 2. acceptance of content octets -/

theorem checkContent_nil : Oid.checkContent [] = false := rfl

theorem checkContent_append_last (init : Bytes) (last : UInt8) :
    Oid.checkContent (init ++ [last]) = decide (last.toNat < 128) := by
  unfold Oid.checkContent
  rw [List.getLast?_concat]
  exact byte_and80_eq0 last

theorem checkContent_cons_cons (a b : UInt8) (t : Bytes) :
    Oid.checkContent (a :: b :: t) = Oid.checkContent (b :: t) := by
  unfold Oid.checkContent
  rw [List.getLast?_cons_cons]

/-- content is accepted iff it is non-empty and its last octet has bit 8 clear -/
theorem checkContent_iff (c : Bytes) :
    Oid.checkContent c = true ↔ ∃ init last, c = init ++ [last] ∧ last.toNat < 128 := by
  constructor
  · intro h
    cases hc : c.getLast? with
    | none => rw [List.getLast?_eq_none_iff] at hc; subst hc; cases h
    | some last =>
      obtain ⟨init, hi⟩ := List.getLast?_eq_some_iff.mp hc
      subst hi
      rw [checkContent_append_last] at h
      exact ⟨init, last, rfl, of_decide_eq_true h⟩
  · rintro ⟨init, last, rfl, hl⟩
    rw [checkContent_append_last]; exact decide_eq_true hl

/-- the same, in terms of `getLast` -/
theorem checkContent_iff' (c : Bytes) :
    Oid.checkContent c = true ↔ ∃ h : c ≠ [], (c.getLast h).toNat < 128 := by
  rw [checkContent_iff]
  constructor
  · rintro ⟨init, last, rfl, hl⟩
    exact ⟨by simp, by simpa using hl⟩
  · rintro ⟨h, hl⟩
    exact ⟨c.dropLast, c.getLast h, (List.dropLast_concat_getLast h).symm, hl⟩

theorem subIdsAux_isSome (c : Bytes) : ∀ cur,
    (subIdsAux c cur).isSome = if c.isEmpty then cur.isEmpty else Oid.checkContent c := by
  induction c with
  | nil => intro cur; cases cur <;> rfl
  | cons b rest ih =>
    intro cur
    simp only [subIdsAux, List.isEmpty_cons, Bool.false_eq_true, if_false]
    cases rest with
    | nil =>
      have hc : Oid.checkContent [b] = decide (b.toNat < 128) := checkContent_append_last [] b
      rw [hc]
      by_cases hb : b.toNat < 128
      · simp [hb, subIdsAux]
      · simp only [hb, if_false, decide_false]
        have := ih (cur ++ [b])
        simp only [List.isEmpty_nil, if_true] at this
        rw [this]; simp
    | cons b2 t =>
      rw [checkContent_cons_cons]
      by_cases hb : b.toNat < 128
      · simp only [hb, if_true, Option.isSome_map]
        rw [ih []]; rfl
      · simp only [hb, if_false]
        rw [ih (cur ++ [b])]; rfl

/-- the model's content check accepts exactly the contents that split into sub-identifiers -/
theorem checkContent_eq_subIds (c : Bytes) : Oid.checkContent c = (subIds c).isSome := by
  unfold subIds
  cases c with
  | nil => rfl
  | cons b t =>
    simp only [List.isEmpty_cons, Bool.false_eq_true, if_false]
    rw [subIdsAux_isSome]; rfl

/-! ### the decoding closures on a primitive value's content window -/

/-- what `with_slice_all` must return on a window of `len` octets -/
def sliceAllF (f : Bytes → Option α) (d : Bytes) (len : Nat) : Res (α × G0) :=
  if len ≤ d.length then
    match f (d.take len) with
    | some a => .ok (a, St (d.drop len) (some 0))
    | none => .error .content
  else .error .content

/-- `Primitive::with_slice_all` on a window of `len` octets -/
theorem run_withSliceAll (f : Bytes → Option α) (d : Bytes) (len : Nat) :
    runG0 (Prim.withSliceAll f) (St d (some len)) = sliceAllF f d len := by
  unfold Prim.withSliceAll Prim.remaining sliceAllF
  simp only [runG0_bind, run_getLimit, run_need]
  have hv : (St d (some len)).view.length = min len d.length := by simp [G0.view, List.length_take]
  by_cases h : len ≤ d.length
  · have hle : len ≤ (St d (some len)).view.length := by rw [hv]; omega
    simp only [h, hle, decide_true, if_true, runG0_pure]
    have ha := G0.advance_eq (St d (some len)) rfl len hle
    have hlt : ¬ min len d.length < len := by omega
    have hs : runG0 (sliceN len) (St d (some len)) = .ok (d.take len, St d (some len)) := by
      simp [sliceN, runG0, stepG0, hv, hlt]
    have hk : runG0 (skipN len) (St d (some len)) = .ok ((), St (d.drop len) (some 0)) := by
      simp [skipN, runG0, stepG0, ha, G0.adv, hv, hlt]
    rw [runG0_bind, hs]
    simp only []
    cases f (d.take len) with
    | none => rfl
    | some a => simp only [runG0_bind, hk, runG0_pure]
  · have : ¬ len ≤ (St d (some len)).view.length := by rw [hv]; omega
    simp [h, this]

theorem take_window (c rest : Bytes) : (c ++ rest).take c.length = c := by simp
theorem drop_window (c rest : Bytes) : (c ++ rest).drop c.length = rest := by simp

/-- **C20, acceptance by taking.**  `Oid::from_primitive` on the content window `c` of a primitive
    value: returns exactly `c` with the window consumed iff `check_content` accepts, otherwise a
    content error. -/
theorem fromPrimitive_run (c rest : Bytes) :
    runG0 Oid.fromPrimitive (St (c ++ rest) (some c.length)) =
      if Oid.checkContent c then .ok (c, St rest (some 0)) else .error .content := by
  unfold Oid.fromPrimitive
  simp only [runG0_bind, run_takeAll, List.length_append, Nat.le_add_right, if_true,
    take_window, drop_window]
  cases Oid.checkContent c <;> rfl

/-- **C20, acceptance by skipping.**  `Oid::skip_primitive` accepts exactly the same contents. -/
theorem skipPrimitive_run (c rest : Bytes) :
    runG0 Oid.skipPrimitive (St (c ++ rest) (some c.length)) =
      if Oid.checkContent c then .ok ((), St rest (some 0)) else .error .content := by
  unfold Oid.skipPrimitive
  rw [run_withSliceAll]
  unfold sliceAllF
  simp only [List.length_append, Nat.le_add_right, if_true, take_window, drop_window]
  cases Oid.checkContent c <;> rfl

/-- the closure of `Oid::skip_if` (match-and-skip): succeeds iff the content octets are equal -/
theorem skipIfPrimitive_run (expected c rest : Bytes) :
    runG0 (Oid.skipIfPrimitive expected) (St (c ++ rest) (some c.length)) =
      if c = expected then .ok ((), St rest (some 0)) else .error .content := by
  unfold Oid.skipIfPrimitive
  rw [run_withSliceAll]
  unfold sliceAllF
  simp only [List.length_append, Nat.le_add_right, if_true, take_window, drop_window]
  by_cases h : c = expected
  · simp [h]
  · have : (c == expected) = false := by simpa using h
    simp [h, this]

/-- followed by the framework's exhaustion check (`LimitedSource::exhausted`), as
    `process_next_value` runs them -/
theorem fromPrimitive_exhausted (c rest : Bytes) :
    runG0 (do let r ← Oid.fromPrimitive; limitedExhausted; pure r) (St (c ++ rest) (some c.length)) =
      if Oid.checkContent c then .ok (c, St rest (some 0)) else .error .content := by
  simp only [runG0_bind, fromPrimitive_run]
  cases Oid.checkContent c
  · rfl
  · simp [run_limitedExhausted]

theorem skipPrimitive_exhausted (c rest : Bytes) :
    runG0 (do Oid.skipPrimitive; limitedExhausted) (St (c ++ rest) (some c.length)) =
      if Oid.checkContent c then .ok ((), St rest (some 0)) else .error .content := by
  simp only [runG0_bind, skipPrimitive_run]
  cases Oid.checkContent c
  · rfl
  · simp [run_limitedExhausted]

theorem skipIfPrimitive_exhausted (expected c rest : Bytes) :
    runG0 (do Oid.skipIfPrimitive expected; limitedExhausted) (St (c ++ rest) (some c.length)) =
      if c = expected then .ok ((), St rest (some 0)) else .error .content := by
  simp only [runG0_bind, skipIfPrimitive_run]
  by_cases h : c = expected
  · simp [h, run_limitedExhausted]
  · simp [h]

/-- taking and skipping accept exactly the same contents, and taking returns the content octets
    themselves (so `==`, `Hash`, `skip_if` being by content octets is equality of these lists) -/
theorem take_skip_alike (c rest : Bytes) :
    (∃ r, runG0 Oid.fromPrimitive (St (c ++ rest) (some c.length)) = .ok r) ↔
    (∃ r, runG0 Oid.skipPrimitive (St (c ++ rest) (some c.length)) = .ok r) := by
  rw [fromPrimitive_run, skipPrimitive_run]
  cases Oid.checkContent c <;> simp

/-! ## 3. the component iterator -/

theorem subIdsAux_nil (cur : Bytes) : subIdsAux [] cur = if cur.isEmpty then some [] else none := by
  cases cur <;> rfl

/-- the first sub-identifier of a splittable content: where `Iter::next` finds its end, and what
    the reference splitter does with it -/
theorem split_first (slice : Bytes) : ∀ (cur : Bytes) (k : Nat) (l : List Bytes), slice ≠ [] →
    subIdsAux slice cur = some l →
    ∃ i l', Oid.findEnd slice k = some (k + i) ∧ i < slice.length ∧
      l = (cur ++ slice.take (i + 1)) :: l' ∧ subIdsAux (slice.drop (i + 1)) [] = some l' := by
  induction slice with
  | nil => intro cur k l h; exact absurd rfl h
  | cons b rest ih =>
    intro cur k l _ h
    simp only [subIdsAux] at h
    by_cases hb : b.toNat < 128
    · simp only [hb, if_true] at h
      cases hr : subIdsAux rest [] with
      | none => simp [hr] at h
      | some l' =>
        simp [hr] at h
        refine ⟨0, l', ?_, by simp, ?_, ?_⟩
        · simp [Oid.findEnd, byte_and80_eq0, hb]
        · simp [← h]
        · simpa using hr
    · simp only [hb, if_false] at h
      have hne : rest ≠ [] := by
        intro e; subst e; rw [subIdsAux_nil] at h; simp at h
      obtain ⟨i, l', h1, h2, h3, h4⟩ := ih (cur ++ [b]) (k + 1) l hne h
      refine ⟨i + 1, l', ?_, by simp; omega, ?_, ?_⟩
      · simp only [Oid.findEnd, byte_and80_eq0, hb, decide_false, Bool.false_eq_true, if_false]
        rw [h1]; congr 1; omega
      · rw [h3]; simp
      · simpa using h4

theorem iterNext_some (slice : Bytes) (pos : Oid.Position) (i : Nat) (hne : slice ≠ [])
    (h : Oid.findEnd slice 0 = some i) :
    Oid.iterNext slice pos = .ok (some ((pos, slice.take (i + 1)),
      (if pos != .first then slice.drop (i + 1) else slice,
       match pos with | .first => Oid.Position.second | _ => Oid.Position.other))) := by
  unfold Oid.iterNext
  have : slice.isEmpty = false := by cases slice with
    | nil => exact absurd rfl hne
    | cons _ _ => rfl
  simp only [this, Bool.false_eq_true, if_false, h]
  cases pos <;> rfl

theorem componentsAux_step (fuel : Nat) (slice : Bytes) (pos : Oid.Position) (i : Nat) (hne : slice ≠ [])
    (h : Oid.findEnd slice 0 = some i) :
    Oid.componentsAux (fuel + 1) slice pos =
      (Oid.componentsAux fuel (if pos != .first then slice.drop (i + 1) else slice)
        (match pos with | .first => Oid.Position.second | _ => Oid.Position.other)).map
        ((pos, slice.take (i + 1)) :: ·) := by
  simp only [Oid.componentsAux, iterNext_some slice pos i hne h]
  rfl

theorem componentsAux_nil (fuel : Nat) (pos : Oid.Position) :
    Oid.componentsAux (fuel + 1) [] pos = .ok [] := rfl

theorem componentsAux_other : ∀ (fuel : Nat) (slice : Bytes) (l : List Bytes), slice.length < fuel →
    subIdsAux slice [] = some l →
    Oid.componentsAux fuel slice .other = .ok (l.map fun s => (Oid.Position.other, s)) := by
  intro fuel
  induction fuel with
  | zero => intro slice l h; omega
  | succ fuel ih =>
    intro slice l hf hs
    by_cases hne : slice = []
    · subst hne
      rw [subIdsAux_nil] at hs; simp at hs; subst hs; rfl
    · obtain ⟨i, l', h1, h2, h3, h4⟩ := split_first slice [] 0 l hne hs
      simp only [Nat.zero_add] at h1
      rw [componentsAux_step fuel slice .other i hne h1]
      have hlen : (slice.drop (i + 1)).length < fuel := by simp; omega
      have := ih (slice.drop (i + 1)) l' hlen h4
      simp only [show (Oid.Position.other != Oid.Position.first) = true from rfl, if_true]
      rw [this, h3]
      rfl

/-- what the iterator yields for the sub-identifiers `l`: the first one twice (as first and second
    component), then the others -/
def compsOf : List Bytes → List (Oid.Position × Bytes)
  | [] => []
  | s0 :: rest => (.first, s0) :: (.second, s0) :: rest.map fun s => (Oid.Position.other, s)

/-- **C20, iterator.**  On every accepted content the component iterator terminates without a
    panic (and within the model's fuel) and yields exactly the sub-identifiers of the reference
    splitter, the first one twice. -/
theorem components_eq (c : Bytes) (l : List Bytes) (h : subIds c = some l) :
    Oid.components c = .ok (compsOf l) := by
  unfold subIds at h
  by_cases hne : c = []
  · subst hne; simp at h
  · have he : c.isEmpty = false := by cases c with
      | nil => exact absurd rfl hne
      | cons _ _ => rfl
    simp only [he, Bool.false_eq_true, if_false] at h
    obtain ⟨i, l', h1, h2, h3, h4⟩ := split_first c [] 0 l hne h
    simp only [Nat.zero_add] at h1
    unfold Oid.components
    rw [componentsAux_step (c.length + 1) c .first i hne h1]
    simp only [show (Oid.Position.first != Oid.Position.first) = false from rfl, Bool.false_eq_true, if_false]
    rw [componentsAux_step c.length c .second i hne h1]
    simp only [show (Oid.Position.second != Oid.Position.first) = true from rfl, if_true]
    have hlen : (c.drop (i + 1)).length < c.length := by simp; omega
    rw [componentsAux_other c.length (c.drop (i + 1)) l' hlen h4, h3]
    rfl

theorem components_accepted (c : Bytes) (h : Oid.checkContent c = true) :
    ∃ s0 rest, subIds c = some (s0 :: rest) ∧
      Oid.components c = .ok ((.first, s0) :: (.second, s0) :: rest.map fun s => (Oid.Position.other, s)) := by
  rw [checkContent_eq_subIds] at h
  cases hs : subIds c with
  | none => simp [hs] at h
  | some l =>
    have hc := components_eq c l hs
    cases l with
    | nil =>
      exfalso
      unfold subIds at hs
      cases c with
      | nil => simp at hs
      | cons b t =>
        simp only [List.isEmpty_cons, Bool.false_eq_true, if_false] at hs
        obtain ⟨i, l', _, _, h3, _⟩ := split_first (b :: t) [] 0 [] (by simp) hs
        cases h3
    | cons s0 rest => exact ⟨s0, rest, rfl, hc⟩

/-! ### outside the accepted contents the iterator panics (as the Rust does) -/

theorem findEnd_spec (slice : Bytes) : ∀ (k j : Nat), Oid.findEnd slice k = some j →
    ∃ i, j = k + i ∧ i < slice.length ∧
      (slice.drop (i + 1) = [] → Oid.checkContent slice = true) ∧
      (slice.drop (i + 1) ≠ [] → Oid.checkContent (slice.drop (i + 1)) = Oid.checkContent slice) := by
  induction slice with
  | nil => intro k j h; simp [Oid.findEnd] at h
  | cons b rest ih =>
    intro k j h
    simp only [Oid.findEnd, byte_and80_eq0] at h
    by_cases hb : b.toNat < 128
    · simp only [hb, decide_true, if_true, Option.some.injEq] at h
      refine ⟨0, by omega, by simp, ?_, ?_⟩
      · intro hd
        simp only [Nat.zero_add, List.drop_succ_cons, List.drop_zero] at hd
        subst hd
        have := checkContent_append_last [] b
        rw [List.nil_append] at this
        rw [this]; exact decide_eq_true hb
      · intro hd
        simp only [Nat.zero_add, List.drop_succ_cons, List.drop_zero] at hd ⊢
        cases rest with
        | nil => exact absurd rfl hd
        | cons c t => exact (checkContent_cons_cons b c t).symm
    · simp only [hb, decide_false, Bool.false_eq_true, if_false] at h
      obtain ⟨i, h1, h2, h3, h4⟩ := ih (k + 1) j h
      have hc : Oid.checkContent (b :: rest) = Oid.checkContent rest := by
        cases rest with
        | nil => simp at h2
        | cons c t => exact checkContent_cons_cons b c t
      refine ⟨i + 1, by omega, by simp; omega, ?_, ?_⟩
      · intro hd; rw [hc]; exact h3 (by simpa using hd)
      · intro hd; rw [hc]; simpa using h4 (by simpa using hd)

theorem iterNext_none (slice : Bytes) (pos : Oid.Position) (hne : slice ≠ [])
    (h : Oid.findEnd slice 0 = none) :
    Oid.iterNext slice pos = .error (.panic "illegal object identifier (last octet has bit 8 set)") := by
  unfold Oid.iterNext
  have : slice.isEmpty = false := by cases slice with
    | nil => exact absurd rfl hne
    | cons _ _ => rfl
  simp only [this, Bool.false_eq_true, if_false, h]

theorem componentsAux_reject : ∀ (fuel : Nat) (slice : Bytes) (pos : Oid.Position), slice ≠ [] →
    Oid.checkContent slice = false → slice.length + (if pos = .first then 1 else 0) < fuel →
    ∃ site, Oid.componentsAux fuel slice pos = .error (.panic site) := by
  intro fuel
  induction fuel with
  | zero => intro slice pos _ _ h; omega
  | succ fuel ih =>
    intro slice pos hne hc hf
    cases hfe : Oid.findEnd slice 0 with
    | none =>
      refine ⟨"illegal object identifier (last octet has bit 8 set)", ?_⟩
      simp only [Oid.componentsAux, iterNext_none slice pos hne hfe]
      rfl
    | some j =>
      obtain ⟨i, h1, h2, h3, h4⟩ := findEnd_spec slice 0 j hfe
      have hj : j = i := by omega
      subst hj
      have hd : slice.drop (j + 1) ≠ [] := by
        intro e; rw [h3 e] at hc; cases hc
      have hcd := h4 hd
      rw [hc] at hcd
      rw [componentsAux_step fuel slice pos j hne hfe]
      cases pos with
      | first =>
        obtain ⟨site, hs⟩ := ih slice .second hne hc (by simp at hf ⊢; omega)
        exact ⟨site, by simp only [show (Oid.Position.first != Oid.Position.first) = false from rfl,
          Bool.false_eq_true, if_false, hs]; rfl⟩
      | second =>
        obtain ⟨site, hs⟩ := ih (slice.drop (j + 1)) .other hd hcd (by simp at hf ⊢; omega)
        exact ⟨site, by simp only [show (Oid.Position.second != Oid.Position.first) = true from rfl,
          if_true, hs]; rfl⟩
      | other =>
        obtain ⟨site, hs⟩ := ih (slice.drop (j + 1)) .other hd hcd (by simp at hf ⊢; omega)
        exact ⟨site, by simp only [show (Oid.Position.other != Oid.Position.first) = true from rfl,
          if_true, hs]; rfl⟩

/-- on non-empty content that `check_content` rejects (which the constructors never produce) the
    iterator panics, as `Iter::next` does in the Rust -/
theorem components_reject (c : Bytes) (hne : c ≠ []) (h : Oid.checkContent c = false) :
    ∃ site, Oid.components c = .error (.panic site) :=
  componentsAux_reject (c.length + 2) c .first hne h (by simp)

/-- the iterator runs to completion exactly on the empty and on the accepted contents -/
theorem components_ok_iff (c : Bytes) :
    (∃ l, Oid.components c = .ok l) ↔ (c = [] ∨ Oid.checkContent c = true) := by
  constructor
  · rintro ⟨l, hl⟩
    by_cases hne : c = []
    · exact Or.inl hne
    · right
      cases hc : Oid.checkContent c with
      | true => rfl
      | false =>
        obtain ⟨site, hs⟩ := components_reject c hne hc
        rw [hs] at hl; cases hl
  · rintro (h | h)
    · subst h; exact ⟨[], rfl⟩
    · obtain ⟨s0, rest, _, hc⟩ := components_accepted c h
      exact ⟨_, hc⟩

/-! ### `Component::to_u32` -/

/-- the loop body of `to_u32` (u32 arithmetic) -/
def stepT (res : Nat) (ch : UInt8) : Nat := ((res <<< 7) % 2 ^ 32) ||| (ch &&& 0x7F).toNat
/-- the loop body of the reference value -/
def stepV (acc : Nat) (b : UInt8) : Nat := acc * 128 + b.toNat % 128

theorem subIdValue_def (s : Bytes) : subIdValue s = s.foldl stepV 0 := rfl

theorem stepT_eq (res : Nat) (ch : UInt8) (h : res * 128 < 2 ^ 32) : stepT res ch = stepV res ch := by
  unfold stepT stepV
  have e : res <<< 7 = res * 128 := by rw [Nat.shiftLeft_eq]
  have hm : (res <<< 7) % 2 ^ 32 = res <<< 7 := Nat.mod_eq_of_lt (by rw [e]; exact h)
  rw [hm, byte_and7f, shl_or res (ch.toNat % 128) 7 (Nat.mod_lt _ (by decide))]

theorem foldl_stepV_mono (s : Bytes) : ∀ a, a ≤ s.foldl stepV a := by
  induction s with
  | nil => intro a; exact Nat.le_refl _
  | cons b s ih =>
    intro a
    have := ih (stepV a b)
    simp only [List.foldl]
    unfold stepV at this ⊢
    omega

/-- as long as the value fits in 32 bits the wrapping loop computes it exactly -/
theorem foldl_stepT_eq (s : Bytes) : ∀ a, s.foldl stepV a < 2 ^ 32 → s.foldl stepT a = s.foldl stepV a := by
  induction s with
  | nil => intro a _; rfl
  | cons b s ih =>
    intro a h
    simp only [List.foldl] at h ⊢
    have hm := foldl_stepV_mono s (stepV a b)
    have hs : a * 128 ≤ stepV a b := by unfold stepV; omega
    have : a * 128 < 2 ^ 32 := by omega
    rw [stepT_eq a b this]
    exact ih _ h

/-- the arc(s) a component stands for, from the value of its sub-identifier
    (X.690 8.19.4: the first sub-identifier is `40 * arc₁ + arc₂`) -/
def arcOf (pos : Oid.Position) (v : Nat) : Nat :=
  match pos with
  | .first => if v < 40 then 0 else if v < 80 then 1 else 2
  | .second => if v < 80 then v % 40 else v - 80
  | .other => v

theorem byte_and70_ne0 (b : UInt8) : ((b &&& 0x70) != 0) = decide (16 ≤ b.toNat % 128) := by
  revert b; apply UInt8.forall_bv; decide

/-- `to_u32` reports "too large" exactly for more than five octets, or five octets with one of
    the bits 5–7 of the first set -/
def tooLarge (s0 : UInt8) (t : Bytes) : Prop := t.length + 1 > 5 ∨ (t.length + 1 = 5 ∧ 16 ≤ s0.toNat % 128)
instance (s0 : UInt8) (t : Bytes) : Decidable (tooLarge s0 t) := by unfold tooLarge; exact inferInstance

theorem toU32_unfold (pos : Oid.Position) (s0 : UInt8) (t : Bytes) :
    Oid.toU32 pos (s0 :: t) =
      if tooLarge s0 t then none else some (arcOf pos ((s0 :: t).foldl stepT 0)) := by
  unfold Oid.toU32 tooLarge
  simp only [List.length_cons, byte_and70_ne0]
  by_cases h : t.length + 1 > 5 ∨ (t.length + 1 = 5 ∧ 16 ≤ s0.toNat % 128)
  · have : (decide (t.length + 1 > 5) || (t.length + 1 == 5 && decide (16 ≤ s0.toNat % 128))) = true := by
      simpa using h
    simp only [this, if_true, h]
  · have : (decide (t.length + 1 > 5) || (t.length + 1 == 5 && decide (16 ≤ s0.toNat % 128))) = false := by
      simpa using h
    simp only [this, Bool.false_eq_true, if_false, h]
    cases pos <;> simp only [arcOf, apply_ite some] <;> rfl

theorem value_fits (s0 : UInt8) (t : Bytes) (h : ¬ tooLarge s0 t) : subIdValue (s0 :: t) < 2 ^ 32 := by
  unfold tooLarge at h
  rw [subIdValue_def]
  rcases t with _ | ⟨b, _ | ⟨c, _ | ⟨d, _ | ⟨e, _ | ⟨f, t⟩⟩⟩⟩⟩
  · simp only [List.foldl, stepV]; omega
  · simp only [List.foldl, stepV]; omega
  · simp only [List.foldl, stepV]; omega
  · simp only [List.foldl, stepV]; omega
  · have h16 : s0.toNat % 128 < 16 := by
      simp only [List.length_cons, List.length_nil, true_and] at h
      omega
    simp only [List.foldl, stepV]
    omega
  · simp only [List.length_cons] at h; omega

/-- **`to_u32`, every non-empty component** (minimal or not): either "too large", or exactly the
    arc determined by the sub-identifier's value — never a wrong number -/
theorem toU32_eq (pos : Oid.Position) (s0 : UInt8) (t : Bytes) :
    Oid.toU32 pos (s0 :: t) =
      if tooLarge s0 t then none else some (arcOf pos (subIdValue (s0 :: t))) := by
  rw [toU32_unfold]
  by_cases h : tooLarge s0 t
  · simp only [h, if_true]
  · simp only [h, if_false]
    have := value_fits s0 t h
    rw [subIdValue_def] at this ⊢
    rw [foldl_stepT_eq _ 0 this]

/-! ### minimally encoded sub-identifiers: structure and value of `base128 v`, for every `v` -/

theorem digits_lt : ∀ (f n : Nat), ∀ d ∈ digits128 f n, d < 128 := by
  intro f
  induction f with
  | zero => intro n d hd; simp [digits128] at hd
  | succ f ih =>
    intro n d hd
    simp only [digits128] at hd
    by_cases h : n < 128
    · simp only [h, if_true, List.mem_singleton] at hd; omega
    · simp only [h, if_false, List.mem_append, List.mem_singleton] at hd
      cases hd with
      | inl h1 => exact ih _ d h1
      | inr h1 => omega

theorem digits_concat (n : Nat) : ∃ init, digits128 (n + 1) n = init ++ [n % 128] := by
  by_cases h : n < 128
  · exact ⟨[], by rw [digits_1 n h, Nat.mod_eq_of_lt h]; rfl⟩
  · exact ⟨_, digits_step n (by omega)⟩

theorem digits_value : ∀ (k n : Nat), n < k →
    (digits128 (n + 1) n).foldl (fun a d => a * 128 + d) 0 = n := by
  intro k
  induction k with
  | zero => intro n h; omega
  | succ k ih =>
    intro n hn
    by_cases h : n < 128
    · rw [digits_1 n h]; simp
    · rw [digits_step n (by omega), List.foldl_append]
      have : n / 128 < k := by omega
      rw [ih (n / 128) this]
      simp only [List.foldl]; omega

/-- the continuation octet for digit `d` -/
def hi (d : Nat) : UInt8 := UInt8.ofNat (d + 128)

/-- `base128 v` is: continuation octets for all digits but the last, then the last digit -/
theorem base128_decomp (n : Nat) : ∃ init,
    digits128 (n + 1) n = init ++ [n % 128] ∧ base128 n = init.map hi ++ [UInt8.ofNat (n % 128)] := by
  obtain ⟨init, hd⟩ := digits_concat n
  refine ⟨init, hd, ?_⟩
  unfold base128
  simp only [hd, List.dropLast_concat, List.getLast?_concat, Option.map_some, Option.toList_some]
  rfl

theorem hi_toNat (d : Nat) (h : d < 128) : (hi d).toNat = d + 128 := by
  unfold hi; rw [toNat_ofNat]; omega

theorem foldl_stepV_hi (init : List Nat) (h : ∀ d ∈ init, d < 128) : ∀ a,
    (init.map hi).foldl stepV a = init.foldl (fun a d => a * 128 + d) a := by
  induction init with
  | nil => intro a; rfl
  | cons d init ih =>
    intro a
    simp only [List.map_cons, List.foldl]
    have hd := h d List.mem_cons_self
    have : stepV a (hi d) = a * 128 + d := by unfold stepV; rw [hi_toNat d hd]; omega
    rw [this]
    exact ih (fun e he => h e (List.mem_cons_of_mem _ he)) _

/-- the value of the minimal sub-identifier of `v` is `v` (all `v`) -/
theorem subIdValue_base128 (v : Nat) : subIdValue (base128 v) = v := by
  obtain ⟨init, hd, hb⟩ := base128_decomp v
  have hlt : ∀ d ∈ init, d < 128 := fun d hm =>
    digits_lt (v + 1) v d (by rw [hd]; exact List.mem_append_left _ hm)
  have hv := digits_value (v + 1) v (by omega)
  rw [hd, List.foldl_append] at hv
  simp only [List.foldl] at hv
  rw [subIdValue_def, hb, List.foldl_append, foldl_stepV_hi init hlt]
  simp only [List.foldl, stepV, toNat_ofNat]
  omega

/-- a sub-identifier: octets with bit 8 set, then one with bit 8 clear -/
def IsSubId (s : Bytes) : Prop :=
  ∃ init last, s = init ++ [last] ∧ (∀ b ∈ init, 128 ≤ b.toNat) ∧ last.toNat < 128

theorem base128_isSubId (v : Nat) : IsSubId (base128 v) := by
  obtain ⟨init, hd, hb⟩ := base128_decomp v
  have hlt : ∀ d ∈ init, d < 128 := fun d hm =>
    digits_lt (v + 1) v d (by rw [hd]; exact List.mem_append_left _ hm)
  refine ⟨init.map hi, UInt8.ofNat (v % 128), hb, ?_, ?_⟩
  · intro b hb'
    obtain ⟨d, hd1, hd2⟩ := List.mem_map.mp hb'
    rw [← hd2, hi_toNat d (hlt d hd1)]; omega
  · rw [toNat_ofNat]; omega

theorem subIdsAux_run (init : Bytes) (last : UInt8) (tail : Bytes)
    (hi' : ∀ b ∈ init, 128 ≤ b.toNat) (hl : last.toNat < 128) : ∀ cur,
    subIdsAux (init ++ last :: tail) cur = (subIdsAux tail []).map ((cur ++ init ++ [last]) :: ·) := by
  induction init with
  | nil => intro cur; simp [subIdsAux, hl]
  | cons b init ih =>
    intro cur
    have hb : ¬ b.toNat < 128 := by have := hi' b List.mem_cons_self; omega
    simp only [List.cons_append, subIdsAux, hb, if_false]
    rw [ih (fun e he => hi' e (List.mem_cons_of_mem _ he)) (cur ++ [b])]
    simp

theorem subIdsAux_flat (l : List Bytes) (h : ∀ s ∈ l, IsSubId s) : subIdsAux l.flatten [] = some l := by
  induction l with
  | nil => rfl
  | cons s l ih =>
    obtain ⟨init, last, hs, h1, h2⟩ := h s List.mem_cons_self
    rw [List.flatten_cons, hs, List.append_assoc, List.singleton_append,
      subIdsAux_run init last l.flatten h1 h2 [], ih (fun e he => h e (List.mem_cons_of_mem _ he))]
    simp

/-- splitting the concatenation of sub-identifiers gives them back -/
theorem subIds_flat (l : List Bytes) (hne : l ≠ []) (h : ∀ s ∈ l, IsSubId s) : subIds l.flatten = some l := by
  unfold subIds
  have : l.flatten.isEmpty = false := by
    cases l with
    | nil => exact absurd rfl hne
    | cons s l =>
      obtain ⟨init, last, hs, _, _⟩ := h s List.mem_cons_self
      rw [List.flatten_cons, hs]
      cases init <;> rfl
  rw [this]; simp only [Bool.false_eq_true, if_false]
  exact subIdsAux_flat l h

theorem digits_len : ∀ (k n : Nat), 128 ^ k ≤ n → k + 1 ≤ (digits128 (n + 1) n).length := by
  intro k
  induction k with
  | zero =>
    intro n _
    obtain ⟨init, hd⟩ := digits_concat n
    rw [hd]; simp
  | succ k ih =>
    intro n h
    have hp : 128 ^ (k + 1) = 128 ^ k * 128 := Nat.pow_succ 128 k
    have h1 : 1 ≤ 128 ^ k := Nat.pow_pos (by decide)
    have hn : 128 ≤ n := by
      have : 128 ^ k * 128 ≥ 1 * 128 := Nat.mul_le_mul_right 128 h1
      omega
    have hdiv : 128 ^ k ≤ n / 128 := by
      rw [Nat.le_div_iff_mul_le (by decide)]; omega
    rw [digits_step n hn, List.length_append]
    have := ih (n / 128) hdiv
    simp only [List.length_singleton]; omega

theorem base128_length (v : Nat) : (base128 v).length = (digits128 (v + 1) v).length := by
  obtain ⟨init, hd, hb⟩ := base128_decomp v
  rw [hd, hb]; simp

/-- a minimal sub-identifier is "too large" for `to_u32` exactly when its value needs more than
    32 bits -/
theorem base128_tooLarge (v : Nat) (s0 : UInt8) (t : Bytes) (h : base128 v = s0 :: t) :
    tooLarge s0 t ↔ 2 ^ 32 ≤ v := by
  unfold tooLarge
  by_cases h1 : v < 128
  · rw [base128_1 v h1] at h; cases h
    simp only [List.length_nil]; constructor <;> intro hh <;> omega
  · by_cases h2 : v < 16384
    · rw [base128_2 v (by omega) h2] at h; cases h
      simp only [List.length_cons, List.length_nil]; constructor <;> intro hh <;> omega
    · by_cases h3 : v < 2097152
      · rw [base128_3 v (by omega) h3] at h; cases h
        simp only [List.length_cons, List.length_nil]; constructor <;> intro hh <;> omega
      · by_cases h4 : v < 268435456
        · rw [base128_4 v (by omega) h4] at h; cases h
          simp only [List.length_cons, List.length_nil]; constructor <;> intro hh <;> omega
        · by_cases h5 : v < 34359738368
          · rw [base128_5 v (by omega) h5] at h; cases h
            simp only [List.length_cons, List.length_nil, toNat_ofNat, true_and]
            constructor <;> intro hh <;> omega
          · have hl := digits_len 5 v (by omega)
            rw [← base128_length, h, List.length_cons] at hl
            constructor <;> intro hh <;> omega

/-- **C20, numeric conversion.**  For the minimally encoded sub-identifier of ANY `v`:
    if `v` fits in 32 bits, `to_u32` returns exactly the arc (`v` itself, or the first / second
    arc by the X.690 rule); otherwise it reports "too large". -/
theorem toU32_base128 (pos : Oid.Position) (v : Nat) :
    Oid.toU32 pos (base128 v) = if v < 2 ^ 32 then some (arcOf pos v) else none := by
  cases hb : base128 v with
  | nil =>
    obtain ⟨init, last, hs, _, _⟩ := base128_isSubId v
    rw [hb] at hs
    cases init <;> cases hs
  | cons s0 t =>
    have hl := base128_tooLarge v s0 t hb
    rw [toU32_eq, ← hb, subIdValue_base128]
    by_cases hv : v < 2 ^ 32
    · have : ¬ tooLarge s0 t := by rw [hl]; omega
      simp only [this, hv, if_false, if_true]
    · have : tooLarge s0 t := by rw [hl]; omega
      simp only [this, hv, if_false, if_true]

theorem toU32_other_min (v : Nat) (h : v < 2 ^ 32) : Oid.toU32 .other (base128 v) = some v := by
  rw [toU32_base128]; simp only [h, if_true]; rfl

theorem toU32_large (pos : Oid.Position) (v : Nat) (h : 2 ^ 32 ≤ v) : Oid.toU32 pos (base128 v) = none := by
  rw [toU32_base128]
  have : ¬ v < 2 ^ 32 := by omega
  simp only [this, if_false]

/-- the first-sub-identifier rule of X.690 8.19.4 and its inverse -/
def validHead (a0 a1 : Nat) : Prop := a0 ≤ 2 ∧ (a0 = 2 ∨ a1 < 40)

theorem arcOf_first (a0 a1 : Nat) (h : validHead a0 a1) : arcOf .first (40 * a0 + a1) = a0 := by
  unfold validHead at h
  simp only [arcOf]
  repeat' split
  all_goals omega

theorem arcOf_second (a0 a1 : Nat) (h : validHead a0 a1) : arcOf .second (40 * a0 + a1) = a1 := by
  unfold validHead at h
  simp only [arcOf]
  repeat' split
  all_goals omega

/-! ### arcs → encoding → iterator / numbers -/

theorem subIds_arcs (a0 a1 : Nat) (rest : List Nat) :
    subIds (arcsToContent (a0 :: a1 :: rest)) = some (((40 * a0 + a1) :: rest).map base128) := by
  show subIds (List.flatMap base128 ((40 * a0 + a1) :: rest)) = _
  rw [List.flatMap_def]
  apply subIds_flat
  · simp
  · intro s hs
    obtain ⟨v, _, hv⟩ := List.mem_map.mp hs
    rw [← hv]; exact base128_isSubId v

/-- the encoding of any arcs is accepted content -/
theorem arcs_accepted (a0 a1 : Nat) (rest : List Nat) :
    Oid.checkContent (arcsToContent (a0 :: a1 :: rest)) = true := by
  rw [checkContent_eq_subIds, subIds_arcs]; rfl

/-- **C20, iterator on encoded arcs.**  The components of the encoding of `a0.a1.rest` are the
    minimal sub-identifiers of `40*a0+a1` (twice: first and second position) and of the other arcs. -/
theorem components_arcs (a0 a1 : Nat) (rest : List Nat) :
    Oid.components (arcsToContent (a0 :: a1 :: rest)) =
      .ok ((.first, base128 (40 * a0 + a1)) :: (.second, base128 (40 * a0 + a1)) ::
        rest.map fun a => (Oid.Position.other, base128 a)) := by
  rw [components_eq _ _ (subIds_arcs a0 a1 rest)]
  simp only [List.map_cons, compsOf, List.map_map]
  rfl

/-- reference decoding inverts reference encoding (sanity of the two reference definitions) -/
theorem contentToArcs_arcs (a0 a1 : Nat) (rest : List Nat) (h : validHead a0 a1) :
    contentToArcs (arcsToContent (a0 :: a1 :: rest)) = some (a0 :: a1 :: rest) := by
  unfold contentToArcs
  rw [subIds_arcs]
  simp only [List.map_cons, subIdValue_base128, List.map_map]
  have hr : rest.map (subIdValue ∘ base128) = rest := by
    have : (subIdValue ∘ base128) = id := funext subIdValue_base128
    rw [this, List.map_id]
  unfold validHead at h
  rw [hr]
  by_cases c1 : 40 * a0 + a1 < 40
  · simp only [c1, if_true]
    have : a0 = 0 := by omega
    subst this; simp
  · by_cases c2 : 40 * a0 + a1 < 80
    · simp only [c1, c2, if_true, if_false]
      have : a0 = 1 := by omega
      subst this
      have : 40 * 1 + a1 - 40 = a1 := by omega
      rw [this]
    · simp only [c1, c2, if_false]
      have : a0 = 2 := by omega
      subst this
      have : 40 * 2 + a1 - 80 = a1 := by omega
      rw [this]

/-- the numbers the iterator plus `to_u32` report for a content (`none` = "too large") -/
def numbers (c : Bytes) : Res (List (Option Nat)) :=
  (Oid.components c).map fun cs => cs.map fun x => Oid.toU32 x.1 x.2

/-- a value that fits `u32`, else "too large" -/
def lim (bound v : Nat) : Option Nat := if bound < 2 ^ 32 then some v else none

/-- **C20, arcs → encoding → numbers.**  For all arcs with a valid head (`a0 ≤ 2`, `a1 < 40`
    unless `a0 = 2`): iterating over the X.690 encoding and converting with `to_u32` gives back
    exactly the arcs whose sub-identifier fits in 32 bits and "too large" for the others (both
    leading arcs when `40*a0+a1` does not fit) — never a wrong number. -/
theorem numbers_arcs (a0 a1 : Nat) (rest : List Nat) (h : validHead a0 a1) :
    numbers (arcsToContent (a0 :: a1 :: rest)) =
      .ok (lim (40 * a0 + a1) a0 :: lim (40 * a0 + a1) a1 :: rest.map fun a => lim a a) := by
  unfold numbers
  rw [components_arcs]
  simp only [Except.map, List.map_cons, List.map_map, toU32_base128]
  have e1 := arcOf_first a0 a1 h
  have e2 := arcOf_second a0 a1 h
  rw [e1, e2]
  have hf : ((fun x : Oid.Position × Bytes => Oid.toU32 x.1 x.2) ∘ fun a => (Oid.Position.other, base128 a)) =
      fun a => lim a a := by
    funext a
    simp only [Function.comp, toU32_base128, lim, arcOf]
  rw [hf]
  rfl

/-! ## 4. display -/

/-! ### `toString` on `Nat`, as octets, is the reference decimal text -/

theorem loop_eq (bs : ByteArray) : ∀ (n i : Nat) (r : List UInt8), bs.size - i = n →
    ByteArray.toList.loop bs i r = r.reverse ++ bs.data.toList.drop i := by
  intro n
  induction n with
  | zero =>
    intro i r h
    rw [ByteArray.toList.loop.eq_def]
    have : ¬ i < bs.size := by omega
    simp only [this, if_false]
    have hl : bs.data.toList.length ≤ i := by
      have : bs.data.toList.length = bs.size := by cases bs; exact Array.length_toList
      omega
    rw [List.drop_of_length_le hl]; simp
  | succ n ih =>
    intro i r h
    rw [ByteArray.toList.loop.eq_def]
    have hi : i < bs.size := by omega
    simp only [hi, if_true]
    rw [ih (i + 1) _ (by omega)]
    have hl : i < bs.data.toList.length := by
      have : bs.data.toList.length = bs.size := by cases bs; exact Array.length_toList
      omega
    rw [List.drop_eq_getElem_cons hl]
    have hg : bs.get! i = bs.data.toList[i] := by
      cases bs with
      | mk d =>
        have hi' : i < d.size := hi
        show d[i]! = d.toList[i]
        rw [getElem!_pos d i hi']; simp
    rw [hg]; simp

theorem toList_eq (bs : ByteArray) : bs.toList = bs.data.toList := by
  rw [ByteArray.toList.eq_1, loop_eq bs (bs.size - 0) 0 [] rfl]; simp

theorem toList_toByteArray (l : List UInt8) : l.toByteArray.toList = l := by
  rw [toList_eq, List.data_toByteArray]

theorem toUTF8_ofList (l : List Char) : (String.ofList l).toUTF8.toList = l.flatMap String.utf8EncodeChar := by
  show (List.utf8Encode l).toList = _
  unfold List.utf8Encode
  rw [toList_toByteArray]

theorem enc_digit (d : Nat) (h : d < 10) : String.utf8EncodeChar (Nat.digitChar d) = [UInt8.ofNat (48 + d)] := by
  have : d = 0 ∨ d = 1 ∨ d = 2 ∨ d = 3 ∨ d = 4 ∨ d = 5 ∨ d = 6 ∨ d = 7 ∨ d = 8 ∨ d = 9 := by omega
  rcases this with rfl|rfl|rfl|rfl|rfl|rfl|rfl|rfl|rfl|rfl <;> decide

theorem toDigits_step (n : Nat) (h : 10 ≤ n) : Nat.toDigits 10 n = Nat.toDigits 10 (n / 10) ++ [Nat.digitChar (n % 10)] := by
  have := @Nat.toDigits_append_toDigits 10 (n / 10) (n % 10) (by decide) (by omega) (by omega)
  rw [Nat.toDigits_of_lt_base (by omega : n % 10 < 10)] at this
  rw [this]; congr 1; omega

theorem decimalAux_fuel : ∀ (f g n : Nat), n < f → n < g → decimalAux f n = decimalAux g n := by
  intro f
  induction f with
  | zero => intro g n h; omega
  | succ f ih =>
    intro g n hf hg
    cases g with
    | zero => omega
    | succ g =>
      simp only [decimalAux]
      by_cases h0 : n < 10
      · simp [h0]
      · simp only [h0, if_false]
        rw [ih g (n / 10) (by omega) (by omega)]

theorem decimal_lt (n : Nat) (h : n < 10) : Spec.decimal n = [UInt8.ofNat (48 + n)] := by
  unfold Spec.decimal
  simp only [decimalAux, h, if_true, List.nil_append, Nat.mod_eq_of_lt h]

theorem decimal_step (n : Nat) (h : 10 ≤ n) :
    Spec.decimal n = Spec.decimal (n / 10) ++ [UInt8.ofNat (48 + n % 10)] := by
  unfold Spec.decimal
  have h0 : ¬ n < 10 := by omega
  rw [show decimalAux (n + 1) n =
    (if n < 10 then [] else decimalAux n (n / 10)) ++ [UInt8.ofNat (48 + n % 10)] from rfl]
  simp only [h0, if_false]
  rw [decimalAux_fuel n (n / 10 + 1) (n / 10) (by omega) (by omega)]

theorem digits_text : ∀ (k n : Nat), n < k →
    (Nat.toDigits 10 n).flatMap String.utf8EncodeChar = Spec.decimal n := by
  intro k
  induction k with
  | zero => intro n h; omega
  | succ k ih =>
    intro n hn
    by_cases h : n < 10
    · rw [Nat.toDigits_of_lt_base h, decimal_lt n h]
      simp only [List.flatMap_cons, List.flatMap_nil, List.append_nil]
      exact enc_digit n h
    · rw [toDigits_step n (by omega), decimal_step n (by omega), List.flatMap_append,
        ih (n / 10) (by omega)]
      simp only [List.flatMap_cons, List.flatMap_nil, List.append_nil]
      rw [enc_digit (n % 10) (by omega)]

/-- the model's decimal text (`toString`, UTF-8 octets) is the reference decimal text -/
theorem decimal_eq (n : Nat) : Oid.decimal n = Spec.decimal n := by
  unfold Oid.decimal
  show (String.ofList (Nat.toDigits 10 n)).toUTF8.toList = _
  rw [toUTF8_ofList, digits_text (n + 1) n (by omega)]

/-! ### `Display` in terms of the numbers -/

def joinDot : List Bytes → Bytes
  | [] => []
  | t :: ts => ts.foldl (fun acc x => acc ++ [0x2E] ++ x) t

/-- the text of one component: its number, or the fixed text for "too large" -/
def textOf : Option Nat → Bytes
  | some v => Spec.decimal v
  | none => "(very large component)".toUTF8.toList

theorem componentText_eq (c : Oid.Position × Bytes) : Oid.componentText c = textOf (Oid.toU32 c.1 c.2) := by
  unfold Oid.componentText textOf
  cases Oid.toU32 c.1 c.2 with
  | none => rfl
  | some v => exact decimal_eq v

/-- **Display, every content**: the displayed text is the dot-separated text of the numbers that
    the iterator and `to_u32` report (with the fixed text for "too large" components); a panic or
    error arises only if the iterator fails -/
theorem display_numbers (c : Bytes) :
    Oid.display c = (numbers c).map fun ns => joinDot (ns.map textOf) := by
  unfold Oid.display numbers
  cases Oid.components c with
  | error e => rfl
  | ok cs =>
    cases cs with
    | nil => rfl
    | cons x rest =>
      show Except.ok _ = Except.ok _
      congr 1
      simp only [List.map_cons, joinDot, List.map_map, List.foldl_map, componentText_eq, Function.comp]

theorem joinDot_cons (t : Bytes) (ts : List Bytes) :
    joinDot (t :: ts) = t ++ ts.flatMap fun x => 0x2E :: x := by
  show ts.foldl (fun acc x => acc ++ [0x2E] ++ x) t = _
  induction ts generalizing t with
  | nil => simp
  | cons x ts ih =>
    simp only [List.foldl, List.flatMap_cons]
    rw [ih]; simp

theorem dotted_cons (a : Nat) (rest : List Nat) :
    Spec.dotted (a :: rest) = Spec.decimal a ++ rest.flatMap fun x => 0x2E :: Spec.decimal x := by
  induction rest generalizing a with
  | nil => simp [Spec.dotted]
  | cons b r ih =>
    simp only [Spec.dotted, List.flatMap_cons]
    rw [ih]; simp

theorem joinDot_dotted (arcs : List Nat) : joinDot (arcs.map fun a => textOf (some a)) = Spec.dotted arcs := by
  cases arcs with
  | nil => rfl
  | cons a rest =>
    rw [List.map_cons, joinDot_cons, dotted_cons, List.flatMap_map]
    rfl

/-- all sub-identifiers of `a0.a1.rest` fit in 32 bits -/
def fits32 (a0 a1 : Nat) (rest : List Nat) : Prop := 40 * a0 + a1 < 2 ^ 32 ∧ ∀ a ∈ rest, a < 2 ^ 32

theorem numbers_arcs_fit (a0 a1 : Nat) (rest : List Nat) (h : validHead a0 a1) (hf : fits32 a0 a1 rest) :
    numbers (arcsToContent (a0 :: a1 :: rest)) = .ok ((a0 :: a1 :: rest).map some) := by
  rw [numbers_arcs a0 a1 rest h]
  obtain ⟨h1, h2⟩ := hf
  simp only [lim, h1, if_true, List.map_cons]
  congr 3
  apply List.map_congr_left
  intro a ha
  simp only [h2 a ha, if_true]

/-- **C20, display.**  For arcs with a valid head whose sub-identifiers fit in 32 bits, displaying
    the X.690 encoding gives the canonical dotted-decimal text. -/
theorem display_arcs (a0 a1 : Nat) (rest : List Nat) (h : validHead a0 a1) (hf : fits32 a0 a1 rest) :
    Oid.display (arcsToContent (a0 :: a1 :: rest)) = .ok (Spec.dotted (a0 :: a1 :: rest)) := by
  rw [display_numbers, numbers_arcs_fit a0 a1 rest h hf]
  show Except.ok (joinDot (List.map textOf (List.map some (a0 :: a1 :: rest)))) = _
  rw [List.map_map]
  exact congrArg _ (joinDot_dotted (a0 :: a1 :: rest))

/-! ## 5. the round trips -/

/-- what a successful parse means: the text's pieces are the arcs `a0.a1.rest`, the head is valid,
    every sub-identifier fits in 32 bits, and the result is the X.690 encoding of these arcs -/
theorem fromStr_some (s c : Bytes) (h : Oid.fromStr s = some c) :
    ∃ a0 a1 rest, (splitOn 0x2E s).mapM parseArc = some (a0 :: a1 :: rest) ∧
      validHead a0 a1 ∧ fits32 a0 a1 rest ∧ c = arcsToContent (a0 :: a1 :: rest) := by
  rw [fromStr_eq_spec] at h
  unfold parseOid at h
  cases hm : (splitOn 0x2E s).mapM parseArc with
  | none => simp [hm] at h
  | some arcs =>
    rw [hm] at h
    rcases arcs with _ | ⟨a0, _ | ⟨a1, rest⟩⟩
    · simp at h
    · simp at h
    · simp only [] at h
      by_cases h1 : a0 > 2
      · simp [h1] at h
      · by_cases h2 : (decide (a0 < 2) && decide (a1 ≥ 40)) = true
        · simp only [h1, h2, if_true, if_false] at h; cases h
        · by_cases h3 : 40 * a0 + a1 ≥ 2 ^ 32
          · simp only [h1, h2, h3, if_true, if_false] at h; cases h
          · simp only [h1, h2, h3, if_false] at h
            have hv : validHead a0 a1 := by
              unfold validHead
              simp only [Bool.and_eq_true, decide_eq_true_eq, not_and] at h2
              omega
            have hall := mapM_lt _ _ hm
            refine ⟨a0, a1, rest, rfl, hv, ⟨by omega, ?_⟩, ?_⟩
            · intro a ha
              exact hall a (List.mem_cons_of_mem _ (List.mem_cons_of_mem _ ha))
            · exact (Option.some.inj h).symm

/-- **C20, text → encoding → text.**  Whenever parsing a text succeeds, the result is accepted
    content, and displaying it gives the canonical dotted-decimal text of the arcs written in the
    input (no `+`, no leading zeros). -/
theorem display_fromStr (s c : Bytes) (h : Oid.fromStr s = some c) :
    ∃ arcs, (splitOn 0x2E s).mapM parseArc = some arcs ∧ Oid.checkContent c = true ∧
      contentToArcs c = some arcs ∧ numbers c = .ok (arcs.map some) ∧
      Oid.display c = .ok (Spec.dotted arcs) := by
  obtain ⟨a0, a1, rest, hm, hv, hf, hc⟩ := fromStr_some s c h
  subst hc
  exact ⟨_, hm, arcs_accepted a0 a1 rest, contentToArcs_arcs a0 a1 rest hv,
    numbers_arcs_fit a0 a1 rest hv hf, display_arcs a0 a1 rest hv hf⟩

/-! ### arcs → canonical text → encoding -/

theorem ofNat_digit (d : Nat) (h : d < 10) : isDigit (UInt8.ofNat (48 + d)) = true ∧
    (UInt8.ofNat (48 + d)).toNat - 48 = d := by
  unfold isDigit
  rw [toNat_ofNat]
  have : (48 + d) % 256 = 48 + d := by omega
  rw [this]
  constructor
  · simp; omega
  · omega

theorem decimal_props : ∀ (k n : Nat), n < k →
    (∀ b ∈ Spec.decimal n, isDigit b = true) ∧ Spec.decimal n ≠ [] ∧
    (Spec.decimal n).foldl stepS 0 = n := by
  intro k
  induction k with
  | zero => intro n h; omega
  | succ k ih =>
    intro n hn
    by_cases h : n < 10
    · rw [decimal_lt n h]
      obtain ⟨d1, d2⟩ := ofNat_digit n h
      refine ⟨?_, by simp, ?_⟩
      · intro b hb; rw [List.mem_singleton] at hb; rw [hb]; exact d1
      · simp only [List.foldl, stepS]; omega
    · rw [decimal_step n (by omega)]
      obtain ⟨i1, i2, i3⟩ := ih (n / 10) (by omega)
      obtain ⟨d1, d2⟩ := ofNat_digit (n % 10) (by omega)
      refine ⟨?_, by simp, ?_⟩
      · intro b hb
        rw [List.mem_append, List.mem_singleton] at hb
        cases hb with
        | inl hb => exact i1 b hb
        | inr hb => rw [hb]; exact d1
      · rw [List.foldl_append, i3]
        simp only [List.foldl, stepS]; omega

theorem isDigit_ne (b : UInt8) (h : isDigit b = true) : b ≠ 0x2E ∧ (b == 0x2B) = false := by
  unfold isDigit at h
  simp only [Bool.and_eq_true, decide_eq_true_eq] at h
  constructor
  · intro e; subst e; have : (0x2E : UInt8).toNat = 46 := rfl; omega
  · rw [byte_beq_iff]; have : (0x2B : UInt8).toNat = 43 := rfl; simp; omega

/-- the canonical decimal text of a number below 2^32 parses back to it -/
theorem parseArc_decimal (n : Nat) (h : n < 2 ^ 32) : parseArc (Spec.decimal n) = some n := by
  obtain ⟨p1, p2, p3⟩ := decimal_props (n + 1) n (by omega)
  rw [parseArc_strip]
  have hs : strip (Spec.decimal n) = Spec.decimal n := by
    cases hd : Spec.decimal n with
    | nil => exact absurd hd p2
    | cons b t =>
      have := (isDigit_ne b (p1 b (by rw [hd]; exact List.mem_cons_self))).2
      simp only [strip, this, Bool.false_eq_true, if_false]
  rw [hs]
  unfold parseS
  have he : (Spec.decimal n).isEmpty = false := by
    cases hd : Spec.decimal n with
    | nil => exact absurd hd p2
    | cons _ _ => rfl
  have ha : (Spec.decimal n).all isDigit = true := List.all_eq_true.mpr p1
  simp only [he, ha, Bool.not_true, Bool.or_self, Bool.false_eq_true, if_false, p3, h, if_true]

theorem splitOn_ne_nil (sep : UInt8) (x : Bytes) : splitOn sep x ≠ [] := by
  cases x with
  | nil => simp [splitOn]
  | cons b r =>
    simp only [splitOn]
    cases splitOn sep r with
    | nil => simp
    | cons c m => by_cases h : (b == sep) = true <;> simp [h]

theorem splitOn_nosep (sep : UInt8) (x : Bytes) (h : ∀ b ∈ x, b ≠ sep) : splitOn sep x = [x] := by
  induction x with
  | nil => rfl
  | cons b r ih =>
    have hb : (b == sep) = false := by simpa using h b List.mem_cons_self
    simp only [splitOn, ih (fun c hc => h c (List.mem_cons_of_mem _ hc)), hb, Bool.false_eq_true, if_false]

theorem splitOn_append (sep : UInt8) (x y : Bytes) (h : ∀ b ∈ x, b ≠ sep) :
    splitOn sep (x ++ sep :: y) = x :: splitOn sep y := by
  induction x with
  | nil =>
    simp only [List.nil_append, splitOn]
    cases hy : splitOn sep y with
    | nil => exact absurd hy (splitOn_ne_nil sep y)
    | cons c m => simp
  | cons b r ih =>
    have hb : (b == sep) = false := by simpa using h b List.mem_cons_self
    simp only [List.cons_append, splitOn, ih (fun c hc => h c (List.mem_cons_of_mem _ hc)), hb,
      Bool.false_eq_true, if_false]

theorem decimal_nodot (n : Nat) : ∀ b ∈ Spec.decimal n, b ≠ 0x2E := fun b hb =>
  (isDigit_ne b ((decimal_props (n + 1) n (by omega)).1 b hb)).1

/-- the canonical text splits at the dots into the decimal texts of the arcs -/
theorem splitOn_dotted (a : Nat) (rest : List Nat) :
    splitOn 0x2E (Spec.dotted (a :: rest)) = (a :: rest).map Spec.decimal := by
  induction rest generalizing a with
  | nil => exact splitOn_nosep _ _ (decimal_nodot a)
  | cons b r ih =>
    show splitOn 0x2E (Spec.decimal a ++ [0x2E] ++ Spec.dotted (b :: r)) = _
    rw [List.append_assoc, List.singleton_append, splitOn_append _ _ _ (decimal_nodot a), ih b]
    rfl

theorem mapM_decimal (arcs : List Nat) (h : ∀ a ∈ arcs, a < 2 ^ 32) :
    (arcs.map Spec.decimal).mapM parseArc = some arcs := by
  induction arcs with
  | nil => rfl
  | cons a r ih =>
    rw [List.map_cons, List.mapM_cons, parseArc_decimal a (h a List.mem_cons_self),
      ih (fun b hb => h b (List.mem_cons_of_mem _ hb))]
    rfl

/-- **C20, arcs → text → encoding.**  For arcs with a valid head whose sub-identifiers fit in 32
    bits, parsing the canonical text gives exactly the X.690 encoding of the arcs. -/
theorem fromStr_dotted (a0 a1 : Nat) (rest : List Nat) (h : validHead a0 a1) (hf : fits32 a0 a1 rest) :
    Oid.fromStr (Spec.dotted (a0 :: a1 :: rest)) = some (arcsToContent (a0 :: a1 :: rest)) := by
  rw [fromStr_eq_spec]
  unfold parseOid
  obtain ⟨f1, f2⟩ := hf
  unfold validHead at h
  have hall : ∀ a ∈ a0 :: a1 :: rest, a < 2 ^ 32 := by
    intro a ha
    rcases List.mem_cons.mp ha with rfl | ha
    · omega
    · rcases List.mem_cons.mp ha with rfl | ha
      · omega
      · exact f2 a ha
  rw [splitOn_dotted, mapM_decimal _ hall]
  have h1 : ¬ a0 > 2 := by omega
  have h2 : ¬ ((decide (a0 < 2) && decide (a1 ≥ 40)) = true) := by
    simp only [Bool.and_eq_true, decide_eq_true_eq, not_and]; omega
  have h3 : ¬ 40 * a0 + a1 ≥ 2 ^ 32 := by omega
  simp only [h1, h2, h3, if_false, Bool.false_eq_true]

/-- **C20, the full circle on accepted texts**: parse, display, parse again gives the same
    content octets -/
theorem fromStr_display_fromStr (s c : Bytes) (h : Oid.fromStr s = some c) :
    ∃ t, Oid.display c = .ok t ∧ Oid.fromStr t = some c := by
  obtain ⟨a0, a1, rest, _, hv, hf, hc⟩ := fromStr_some s c h
  subst hc
  exact ⟨_, display_arcs a0 a1 rest hv hf, fromStr_dotted a0 a1 rest hv hf⟩

/-! ## non-vacuity: concrete instances -/

-- "1.2.840.113549"
example : Oid.fromStr [0x31, 0x2E, 0x32, 0x2E, 0x38, 0x34, 0x30, 0x2E, 0x31, 0x31, 0x33, 0x35, 0x34, 0x39] =
    some [0x2A, 0x86, 0x48, 0x86, 0xF7, 0x0D] := by decide
-- "2.999"
example : Oid.fromStr [0x32, 0x2E, 0x39, 0x39, 0x39] = some [0x88, 0x37] := by decide
-- "3.1" is rejected (first arc > 2)
example : Oid.fromStr [0x33, 0x2E, 0x31] = none := by decide
-- "1.40" is rejected (second arc ≥ 40 under first arc 1)
example : Oid.fromStr [0x31, 0x2E, 0x34, 0x30] = none := by decide
-- "+1.2" is accepted: Rust's `u32::from_str` accepts a leading plus
example : Oid.fromStr [0x2B, 0x31, 0x2E, 0x32] = some [0x2A] := by decide
-- "", "1", "1..2", "1.2." are rejected
example : Oid.fromStr [] = none := by decide
example : Oid.fromStr [0x31] = none := by decide
example : Oid.fromStr [0x31, 0x2E, 0x2E, 0x32] = none := by decide
example : Oid.fromStr [0x31, 0x2E, 0x32, 0x2E] = none := by decide
-- "2.4294967295" is rejected (40*2 + 4294967295 does not fit u32; the Rust before the fix panicked)
example : Oid.fromStr [0x32, 0x2E, 0x34, 0x32, 0x39, 0x34, 0x39, 0x36, 0x37, 0x32, 0x39, 0x35] = none := by decide
-- "1.2.4294967295" is accepted with a five-octet sub-identifier, "1.2.4294967296" is rejected
example : Oid.fromStr [0x31, 0x2E, 0x32, 0x2E, 0x34, 0x32, 0x39, 0x34, 0x39, 0x36, 0x37, 0x32, 0x39, 0x35] =
    some [0x2A, 0x8F, 0xFF, 0xFF, 0xFF, 0x7F] := by decide
example : Oid.fromStr [0x31, 0x2E, 0x32, 0x2E, 0x34, 0x32, 0x39, 0x34, 0x39, 0x36, 0x37, 0x32, 0x39, 0x36] =
    none := by decide

-- the hypotheses of the arcs theorems hold for 1.2.840.113549 and for 2.999
example : validHead 1 2 ∧ fits32 1 2 [840, 113549] := by
  refine ⟨by unfold validHead; omega, by omega, ?_⟩
  intro a ha; simp at ha; omega
example : validHead 2 999 ∧ fits32 2 999 [] := by
  refine ⟨by unfold validHead; omega, by omega, ?_⟩
  intro a ha; cases ha
example : arcsToContent [1, 2, 840, 113549] = [0x2A, 0x86, 0x48, 0x86, 0xF7, 0x0D] := by decide
example : Spec.dotted [1, 2, 840, 113549] =
    [0x31, 0x2E, 0x32, 0x2E, 0x38, 0x34, 0x30, 0x2E, 0x31, 0x31, 0x33, 0x35, 0x34, 0x39] := by decide
example : Oid.display [0x2A, 0x86, 0x48, 0x86, 0xF7, 0x0D] =
    .ok [0x31, 0x2E, 0x32, 0x2E, 0x38, 0x34, 0x30, 0x2E, 0x31, 0x31, 0x33, 0x35, 0x34, 0x39] := by
  have h := display_arcs 1 2 [840, 113549] (by unfold validHead; omega)
    ⟨by omega, by intro a ha; simp at ha; omega⟩
  have e1 : arcsToContent [1, 2, 840, 113549] = [0x2A, 0x86, 0x48, 0x86, 0xF7, 0x0D] := by decide
  have e2 : Spec.dotted [1, 2, 840, 113549] =
    [0x31, 0x2E, 0x32, 0x2E, 0x38, 0x34, 0x30, 0x2E, 0x31, 0x31, 0x33, 0x35, 0x34, 0x39] := by decide
  rw [e1, e2] at h; exact h
-- the iterator on 1.2.840.113549
example : Oid.components [0x2A, 0x86, 0x48, 0x86, 0xF7, 0x0D] =
    .ok [(.first, [0x2A]), (.second, [0x2A]), (.other, [0x86, 0x48]), (.other, [0x86, 0xF7, 0x0D])] := by
  have h := components_arcs 1 2 [840, 113549]
  have e1 : arcsToContent [1, 2, 840, 113549] = [0x2A, 0x86, 0x48, 0x86, 0xF7, 0x0D] := by decide
  have e2 : base128 (40 * 1 + 2) = [0x2A] ∧ base128 840 = [0x86, 0x48] ∧
    base128 113549 = [0x86, 0xF7, 0x0D] := by decide
  rw [e1, e2.1] at h
  simp only [List.map_cons, List.map_nil, e2.2.1, e2.2.2] at h
  exact h
-- acceptance by taking / skipping on a concrete window (3 content octets, then other data)
example : runG0 Oid.fromPrimitive (St ([0x2A, 0x86, 0x48] ++ [0xFF]) (some 3)) =
    .ok ([0x2A, 0x86, 0x48], St [0xFF] (some 0)) := fromPrimitive_run [0x2A, 0x86, 0x48] [0xFF]
example : runG0 Oid.fromPrimitive (St ([0x2A, 0x86] ++ [0x48]) (some 2)) = .error .content :=
  fromPrimitive_run [0x2A, 0x86] [0x48]
example : runG0 Oid.skipPrimitive (St ([0x2A, 0x86] ++ [0x48]) (some 2)) = .error .content :=
  skipPrimitive_run [0x2A, 0x86] [0x48]
example : runG0 (Oid.skipIfPrimitive [0x2A, 0x03]) (St ([0x2A, 0x03] ++ []) (some 2)) = .ok ((), St [] (some 0)) :=
  skipIfPrimitive_run [0x2A, 0x03] [0x2A, 0x03] []
example : runG0 (Oid.skipIfPrimitive [0x2A, 0x03]) (St ([0x2A, 0x04] ++ []) (some 2)) = .error .content :=
  skipIfPrimitive_run [0x2A, 0x03] [0x2A, 0x04] []
-- acceptance: the last octet decides
example : Oid.checkContent [0x2A, 0x86, 0x48] = true ∧ Oid.checkContent [0x2A, 0x86] = false ∧
    Oid.checkContent [] = false := by decide
-- a minimal sub-identifier just above u32: "too large", not a wrong number
example : base128 (2 ^ 32) = [0x90, 0x80, 0x80, 0x80, 0x00] ∧
    Oid.toU32 .other [0x90, 0x80, 0x80, 0x80, 0x00] = none ∧
    Oid.toU32 .other [0x8F, 0xFF, 0xFF, 0xFF, 0x7F] = some 4294967295 := by decide
-- 2.999: the two leading arcs from the single sub-identifier 1079
example : Oid.toU32 .first [0x88, 0x37] = some 2 ∧ Oid.toU32 .second [0x88, 0x37] = some 999 := by decide

/-! ### comparison and hashing are by content octets -/

/-- `Oid == Oid` exactly when the content octets are equal -/
theorem eq_iff_content (a b : Bytes) : Oid.eq a b = true ↔ a = b := by
  simp [Oid.eq]

/-- equal identifiers feed the same octets to the hasher, so they hash equally (with any hasher) -/
theorem hash_content (a b : Bytes) (h : Oid.eq a b = true) : Oid.hashInput a = Oid.hashInput b := by
  rw [(eq_iff_content a b).mp h]

/-- … and the hash input determines the identifier: no two different identifiers are hashed as
    the same octets -/
theorem hashInput_inj (a b : Bytes) (h : Oid.hashInput a = Oid.hashInput b) : a = b := h

end Bcder.Props.C20
