/-
  C20 — Object identifiers round-trip between text, arcs and encoding.
-/
import Bcder.Model.Oid
import Bcder.Spec.Values
import Bcder.Lemmas.Bytes
import Bcder.Props.C12
import Bcder.Props.C02
namespace Bcder.Props.C20
open Bcder Bcder.Spec Prog
open Bcder.Props.C02 (St run_getLimit run_need run_takeAll run_limitedExhausted)

/-! ## 1. text → encoding : `Oid.fromStr = Spec.parseOid` on every octet string -/

theorem splitDot_eq (s : Bytes) : Oid.splitDot s = Spec.splitOn 0x2E s := by
  induction s with
  | nil => rfl
  | cons b rest ih =>
    simp only [Oid.splitDot, Spec.splitOn, ih]
    cases Spec.splitOn 0x2E rest <;> rfl

/-- the step function of the model's digit loop -/
def stepM (acc : Option Nat) (d : UInt8) : Option Nat :=
  match acc with
  | none => none
  | some v =>
    if d ≥ 0x30 && d ≤ 0x39 then
      let v' := v * 10 + (d.toNat - 0x30)
      if v' ≥ 2 ^ 32 then none else some v'
    else none

/-- the step function of the reference value -/
def stepS (acc : Nat) (d : UInt8) : Nat := acc * 10 + (d.toNat - 48)

def isDigit (d : UInt8) : Bool := d.toNat ≥ 48 && d.toNat ≤ 57

theorem foldl_stepM_none (ds : Bytes) : ds.foldl stepM none = none := by
  induction ds with
  | nil => rfl
  | cons d ds ih => simpa [List.foldl, stepM] using ih

theorem foldl_stepS_mono (ds : Bytes) : ∀ a, a ≤ ds.foldl stepS a := by
  induction ds with
  | nil => intro a; exact Nat.le_refl _
  | cons d ds ih =>
    intro a
    have := ih (stepS a d)
    simp only [List.foldl]
    unfold stepS at this ⊢
    omega

theorem digit_test (d : UInt8) : (decide (d ≥ 0x30) && decide (d ≤ 0x39)) = isDigit d := by
  unfold isDigit
  simp only [ge_iff_le, UInt8.le_iff_toNat_le]
  rfl

/-- the loop invariant: the early-aborting loop equals "all digits, then the value, then the range
    check" -/
theorem foldl_stepM (ds : Bytes) : ∀ v, v < 2 ^ 32 →
    ds.foldl stepM (some v) =
      if ds.all isDigit && decide (ds.foldl stepS v < 2 ^ 32) then some (ds.foldl stepS v) else none := by
  induction ds with
  | nil => intro v hv; simp [hv]
  | cons d ds ih =>
    intro v hv
    simp only [List.foldl, List.all_cons]
    by_cases hd : isDigit d = true
    · have hstep : stepM (some v) d =
          if v * 10 + (d.toNat - 48) ≥ 2 ^ 32 then none else some (v * 10 + (d.toNat - 48)) := by
        simp only [stepM, digit_test, hd, if_true]
      by_cases hov : v * 10 + (d.toNat - 48) ≥ 2 ^ 32
      · have hm := foldl_stepS_mono ds (stepS v d)
        have : ¬ (ds.foldl stepS (stepS v d) < 2 ^ 32) := by unfold stepS at hm ⊢; omega
        rw [hstep]; simp only [hov, if_true, foldl_stepM_none]
        simp [this]
      · rw [hstep]; simp only [hov, if_false]
        rw [ih _ (by omega)]
        simp only [hd, Bool.true_and]
        rfl
    · have hstep : stepM (some v) d = none := by
        simp only [stepM, digit_test, hd]; rfl
      rw [hstep, foldl_stepM_none]
      simp [hd]

/-- optional leading `+` removed -/
def strip (s : Bytes) : Bytes :=
  match s with
  | b :: rest => if b == 0x2B then rest else s
  | [] => []

def parseM (ds : Bytes) : Option Nat := if ds.isEmpty then none else ds.foldl stepM (some 0)
def parseS (ds : Bytes) : Option Nat :=
  if ds.isEmpty || !ds.all isDigit then none
  else if ds.foldl stepS 0 < 2 ^ 32 then some (ds.foldl stepS 0) else none

theorem parseU32_strip (x : Bytes) : Oid.parseU32 x = parseM (strip x) := by
  cases x <;> rfl
theorem parseArc_strip (x : Bytes) : Spec.parseArc x = parseS (strip x) := by
  cases x <;> rfl

theorem parseM_eq (ds : Bytes) : parseM ds = parseS ds := by
  unfold parseM parseS
  by_cases he : ds.isEmpty = true
  · simp [he]
  · simp only [he, Bool.false_or]
    rw [foldl_stepM ds 0 (by decide)]
    by_cases ha : ds.all isDigit = true
    · simp [ha]
    · simp [ha]

/-- `u32::from_str` as modelled is the reference arc parser, on every octet string -/
theorem parseU32_eq (x : Bytes) : Oid.parseU32 x = Spec.parseArc x := by
  rw [parseU32_strip, parseArc_strip, parseM_eq]

theorem parseS_lt (ds : Bytes) (v : Nat) (h : parseS ds = some v) : v < 2 ^ 32 := by
  unfold parseS at h
  split at h
  · cases h
  · split at h
    · cases h; assumption
    · cases h

theorem parseArc_lt (x : Bytes) (v : Nat) (h : Spec.parseArc x = some v) : v < 2 ^ 32 := by
  rw [parseArc_strip] at h; exact parseS_lt _ _ h

/-! ### `encodeItem` is the X.690 base-128 form -/

open Bcder.Props.C12 (digits_1 digits_2 digits_3 digits_step digits_fuel base128_1 base128_2 base128_3)

theorem digits_4 (n : Nat) (h0 : 2097152 ≤ n) (h : n < 268435456) :
    digits128 (n + 1) n = [n / 2097152, n / 16384 % 128, n / 128 % 128, n % 128] := by
  rw [digits_step n (by omega), digits_3 (n / 128) (by omega) (by omega)]
  have e1 : n / 128 / 16384 = n / 2097152 := by omega
  have e2 : n / 128 / 128 = n / 16384 := by omega
  rw [e1, e2]; rfl

theorem digits_5 (n : Nat) (h0 : 268435456 ≤ n) (h : n < 34359738368) :
    digits128 (n + 1) n = [n / 268435456, n / 2097152 % 128, n / 16384 % 128, n / 128 % 128, n % 128] := by
  rw [digits_step n (by omega), digits_4 (n / 128) (by omega) (by omega)]
  have e1 : n / 128 / 2097152 = n / 268435456 := by omega
  have e2 : n / 128 / 16384 = n / 2097152 := by omega
  have e3 : n / 128 / 128 = n / 16384 := by omega
  rw [e1, e2, e3]; rfl

theorem base128_4 (n : Nat) (h0 : 2097152 ≤ n) (h : n < 268435456) :
    base128 n = [UInt8.ofNat (n / 2097152 + 128), UInt8.ofNat (n / 16384 % 128 + 128),
      UInt8.ofNat (n / 128 % 128 + 128), UInt8.ofNat (n % 128)] := by
  simp [base128, digits_4 n h0 h]

theorem base128_5 (n : Nat) (h0 : 268435456 ≤ n) (h : n < 34359738368) :
    base128 n = [UInt8.ofNat (n / 268435456 + 128), UInt8.ofNat (n / 2097152 % 128 + 128),
      UInt8.ofNat (n / 16384 % 128 + 128), UInt8.ofNat (n / 128 % 128 + 128), UInt8.ofNat (n % 128)] := by
  simp [base128, digits_5 n h0 h]

theorem nat_or80 (x : Nat) (h : x < 128) : x ||| 0x80 = x + 128 := by
  have := Nat.two_pow_add_eq_or_of_lt (i := 7) (b := x) h 1
  rw [Nat.or_comm]
  simp only [Nat.reducePow, Nat.mul_one] at this
  omega

theorem nat_and7f (x : Nat) : x &&& 0x7F = x % 128 := Nat.and_two_pow_sub_one_eq_mod x 7

theorem hi_octet (v k : Nat) : ((v >>> k) &&& 0x7F) ||| 0x80 = v / 2 ^ k % 128 + 128 := by
  rw [nat_and7f, Nat.shiftRight_eq_div_pow, nat_or80 _ (Nat.mod_lt _ (by decide))]

/-- the octets `FromStr` writes for one `u32` are the X.690 sub-identifier octets -/
theorem encodeItem_eq (v : Nat) (hv : v < 2 ^ 32) : Oid.encodeItem v = base128 v := by
  unfold Oid.encodeItem
  have top : (v >>> 28) ||| 0x80 = v / 268435456 + 128 := by
    rw [Nat.shiftRight_eq_div_pow, nat_or80 _ (by omega)]
  simp only [hi_octet, top]
  simp only [nat_and7f, Nat.reducePow]
  by_cases h1 : v < 128
  · rw [base128_1 v h1]
    have a1 : ¬ v > 0x0FFFFFFF := by omega
    have a2 : ¬ v > 0x001FFFFF := by omega
    have a3 : ¬ v > 0x00003FFF := by omega
    have a4 : ¬ v > 0x0000007F := by omega
    simp only [a1, a2, a3, a4, if_false, List.nil_append, Nat.mod_eq_of_lt h1]
  · by_cases h2 : v < 16384
    · rw [base128_2 v (by omega) h2]
      have a1 : ¬ v > 0x0FFFFFFF := by omega
      have a2 : ¬ v > 0x001FFFFF := by omega
      have a3 : ¬ v > 0x00003FFF := by omega
      have a4 : v > 0x0000007F := by omega
      have e : v / 128 % 128 = v / 128 := by omega
      simp only [a1, a2, a3, a4, if_false, if_true, List.nil_append, List.cons_append, e]
    · by_cases h3 : v < 2097152
      · rw [base128_3 v (by omega) h3]
        have a1 : ¬ v > 0x0FFFFFFF := by omega
        have a2 : ¬ v > 0x001FFFFF := by omega
        have a3 : v > 0x00003FFF := by omega
        have a4 : v > 0x0000007F := by omega
        have e : v / 16384 % 128 = v / 16384 := by omega
        simp only [a1, a2, a3, a4, if_false, if_true, List.nil_append, List.cons_append, e]
      · by_cases h4 : v < 268435456
        · rw [base128_4 v (by omega) h4]
          have a1 : ¬ v > 0x0FFFFFFF := by omega
          have a2 : v > 0x001FFFFF := by omega
          have a3 : v > 0x00003FFF := by omega
          have a4 : v > 0x0000007F := by omega
          have e : v / 2097152 % 128 = v / 2097152 := by omega
          simp only [a1, a2, a3, a4, if_false, if_true, List.nil_append, List.cons_append, e]
        · rw [base128_5 v (by omega) (by omega)]
          have a1 : v > 0x0FFFFFFF := by omega
          have a2 : v > 0x001FFFFF := by omega
          have a3 : v > 0x00003FFF := by omega
          have a4 : v > 0x0000007F := by omega
          simp only [a1, a2, a3, a4, if_true, List.nil_append, List.cons_append]

/-! ### the whole parser -/

theorem parseAll_eq (xs : List Bytes) : Oid.parseAll xs = xs.mapM Spec.parseArc := by
  induction xs with
  | nil => rfl
  | cons x xs ih =>
    rw [List.mapM_cons, ← ih, ← parseU32_eq]
    rfl

theorem mapM_lt (xs : List Bytes) : ∀ vs, xs.mapM Spec.parseArc = some vs → ∀ v ∈ vs, v < 2 ^ 32 := by
  induction xs with
  | nil => intro vs h v hv; simp at h; subst h; cases hv
  | cons x xs ih =>
    intro vs h v hv
    rw [List.mapM_cons] at h
    cases hx : Spec.parseArc x with
    | none => simp [hx] at h
    | some a =>
      cases hxs : xs.mapM Spec.parseArc with
      | none => simp [hx, hxs] at h
      | some as =>
        simp [hx, hxs] at h
        subst h
        cases hv with
        | head => exact parseArc_lt x _ hx
        | tail _ hm => exact ih as hxs v hm

theorem flatMap_encode (vs : List Nat) (h : ∀ v ∈ vs, v < 2 ^ 32) :
    vs.flatMap Oid.encodeItem = vs.flatMap base128 := by
  induction vs with
  | nil => rfl
  | cons v vs ih =>
    simp only [List.flatMap_cons]
    rw [encodeItem_eq v (h v (List.mem_cons_self)), ih (fun w hw => h w (List.mem_cons_of_mem _ hw))]

/-- **C20, text → encoding.**  For EVERY octet string `s`, `Oid::from_str` (as modelled: a total
    function into `Option`, so no panic) returns exactly what the reference parser returns: the
    X.690 content octets of the arcs written in `s`, or an error. -/
theorem fromStr_eq_spec (s : Bytes) : Oid.fromStr s = Spec.parseOid s := by
  unfold Oid.fromStr Spec.parseOid
  rw [splitDot_eq]
  cases hsp : Spec.splitOn 0x2E s with
  | nil => rfl
  | cons x t =>
    cases t with
    | nil =>
      simp only [List.mapM_cons, List.mapM_nil]
      cases Spec.parseArc x <;> rfl
    | cons y rest =>
      simp only [List.mapM_cons, parseU32_eq, parseAll_eq]
      cases hx : Spec.parseArc x with
      | none => rfl
      | some a0 =>
        cases hy : Spec.parseArc y with
        | none =>
          show (if a0 > 2 then none else none) = none
          split <;> rfl
        | some a1 =>
          cases hr : rest.mapM Spec.parseArc with
          | none =>
            show (if a0 > 2 then none else if (decide (a0 < 2) && decide (a1 ≥ 40)) = true then none else
              if 40 * a0 + a1 ≥ 2 ^ 32 then none else none) = none
            repeat' split
            all_goals rfl
          | some others =>
            show (if a0 > 2 then none else if (decide (a0 < 2) && decide (a1 ≥ 40)) = true then none else
              if 40 * a0 + a1 ≥ 2 ^ 32 then none else
                some (((40 * a0 + a1) :: others).flatMap Oid.encodeItem)) =
              (if a0 > 2 then none else if (decide (a0 < 2) && decide (a1 ≥ 40)) = true then none else
              if 40 * a0 + a1 ≥ 2 ^ 32 then none else some (arcsToContent (a0 :: a1 :: others)))
            by_cases h1 : a0 > 2
            · simp only [h1, if_true]
            · simp only [h1, if_false]
              by_cases h2 : (decide (a0 < 2) && decide (a1 ≥ 40)) = true
              · simp only [h2, if_true]
              · simp only [h2]
                by_cases h3 : 40 * a0 + a1 ≥ 2 ^ 32
                · simp only [h3, if_true]
                · simp only [h3, if_false]
                  have hall : ∀ v ∈ ((40 * a0 + a1) :: others), v < 2 ^ 32 := by
                    intro v hv
                    cases hv with
                    | head => omega
                    | tail _ hm => exact mapM_lt rest others hr v hm
                  rw [flatMap_encode _ hall]
                  rfl

/-! ## 2. acceptance of content octets -/

theorem checkContent_nil : Oid.checkContent [] = false := rfl

theorem checkContent_append_last (init : Bytes) (last : UInt8) :
    Oid.checkContent (init ++ [last]) = decide (last.toNat < 128) := by
  unfold Oid.checkContent
  rw [List.getLast?_concat]
  exact byte_and80_eq0 last

theorem checkContent_cons_cons (a b : UInt8) (t : Bytes) :
    Oid.checkContent (a :: b :: t) = Oid.checkContent (b :: t) := by
  unfold Oid.checkContent
  rw [List.getLast?_cons_cons]

/-- content is accepted iff it is non-empty and its last octet has bit 8 clear -/
theorem checkContent_iff (c : Bytes) :
    Oid.checkContent c = true ↔ ∃ init last, c = init ++ [last] ∧ last.toNat < 128 := by
  constructor
  · intro h
    cases hc : c.getLast? with
    | none => rw [List.getLast?_eq_none_iff] at hc; subst hc; cases h
    | some last =>
      obtain ⟨init, hi⟩ := List.getLast?_eq_some_iff.mp hc
      subst hi
      rw [checkContent_append_last] at h
      exact ⟨init, last, rfl, of_decide_eq_true h⟩
  · rintro ⟨init, last, rfl, hl⟩
    rw [checkContent_append_last]; exact decide_eq_true hl

/-- the same, in terms of `getLast` -/
theorem checkContent_iff' (c : Bytes) :
    Oid.checkContent c = true ↔ ∃ h : c ≠ [], (c.getLast h).toNat < 128 := by
  rw [checkContent_iff]
  constructor
  · rintro ⟨init, last, rfl, hl⟩
    exact ⟨by simp, by simpa using hl⟩
  · rintro ⟨h, hl⟩
    exact ⟨c.dropLast, c.getLast h, (List.dropLast_concat_getLast h).symm, hl⟩

theorem subIdsAux_isSome (c : Bytes) : ∀ cur,
    (subIdsAux c cur).isSome = if c.isEmpty then cur.isEmpty else Oid.checkContent c := by
  induction c with
  | nil => intro cur; cases cur <;> rfl
  | cons b rest ih =>
    intro cur
    simp only [subIdsAux, List.isEmpty_cons, Bool.false_eq_true, if_false]
    cases rest with
    | nil =>
      have hc : Oid.checkContent [b] = decide (b.toNat < 128) := checkContent_append_last [] b
      rw [hc]
      by_cases hb : b.toNat < 128
      · simp [hb, subIdsAux]
      · simp only [hb, if_false, decide_false]
        have := ih (cur ++ [b])
        simp only [List.isEmpty_nil, if_true] at this
        rw [this]; simp
    | cons b2 t =>
      rw [checkContent_cons_cons]
      by_cases hb : b.toNat < 128
      · simp only [hb, if_true, Option.isSome_map]
        rw [ih []]; rfl
      · simp only [hb, if_false]
        rw [ih (cur ++ [b])]; rfl

/-- the model's content check accepts exactly the contents that split into sub-identifiers -/
theorem checkContent_eq_subIds (c : Bytes) : Oid.checkContent c = (subIds c).isSome := by
  unfold subIds
  cases c with
  | nil => rfl
  | cons b t =>
    simp only [List.isEmpty_cons, Bool.false_eq_true, if_false]
    rw [subIdsAux_isSome]; rfl

/-! ### the decoding closures on a primitive value's content window -/

/-- what `with_slice_all` must return on a window of `len` octets -/
def sliceAllF (f : Bytes → Option α) (d : Bytes) (len : Nat) : Res (α × G0) :=
  if len ≤ d.length then
    match f (d.take len) with
    | some a => .ok (a, St (d.drop len) (some 0))
    | none => .error .content
  else .error .content

/-- `Primitive::with_slice_all` on a window of `len` octets -/
theorem run_withSliceAll (f : Bytes → Option α) (d : Bytes) (len : Nat) :
    runG0 (Prim.withSliceAll f) (St d (some len)) = sliceAllF f d len := by
  unfold Prim.withSliceAll Prim.remaining sliceAllF
  simp only [runG0_bind, run_getLimit, run_need]
  have hv : (St d (some len)).view.length = min len d.length := by simp [G0.view, List.length_take]
  by_cases h : len ≤ d.length
  · have hle : len ≤ (St d (some len)).view.length := by rw [hv]; omega
    simp only [h, hle, decide_true, if_true, runG0_pure]
    have ha := G0.advance_eq (St d (some len)) rfl len hle
    have hlt : ¬ min len d.length < len := by omega
    have hs : runG0 (sliceN len) (St d (some len)) = .ok (d.take len, St d (some len)) := by
      simp [sliceN, runG0, stepG0, hv, hlt]
    have hk : runG0 (skipN len) (St d (some len)) = .ok ((), St (d.drop len) (some 0)) := by
      simp [skipN, runG0, stepG0, ha, G0.adv, hv, hlt]
    rw [runG0_bind, hs]
    simp only []
    cases f (d.take len) with
    | none => rfl
    | some a => simp only [runG0_bind, hk, runG0_pure]
  · have : ¬ len ≤ (St d (some len)).view.length := by rw [hv]; omega
    simp [h, this]

theorem take_window (c rest : Bytes) : (c ++ rest).take c.length = c := by simp
theorem drop_window (c rest : Bytes) : (c ++ rest).drop c.length = rest := by simp

/-- **C20, acceptance by taking.**  `Oid::from_primitive` on the content window `c` of a primitive
    value: returns exactly `c` with the window consumed iff `check_content` accepts, otherwise a
    content error. -/
theorem fromPrimitive_run (c rest : Bytes) :
    runG0 Oid.fromPrimitive (St (c ++ rest) (some c.length)) =
      if Oid.checkContent c then .ok (c, St rest (some 0)) else .error .content := by
  unfold Oid.fromPrimitive
  simp only [runG0_bind, run_takeAll, List.length_append, Nat.le_add_right, if_true,
    take_window, drop_window]
  cases Oid.checkContent c <;> rfl

/-- **C20, acceptance by skipping.**  `Oid::skip_primitive` accepts exactly the same contents. -/
theorem skipPrimitive_run (c rest : Bytes) :
    runG0 Oid.skipPrimitive (St (c ++ rest) (some c.length)) =
      if Oid.checkContent c then .ok ((), St rest (some 0)) else .error .content := by
  unfold Oid.skipPrimitive
  rw [run_withSliceAll]
  unfold sliceAllF
  simp only [List.length_append, Nat.le_add_right, if_true, take_window, drop_window]
  cases Oid.checkContent c <;> rfl

/-- the closure of `Oid::skip_if` (match-and-skip): succeeds iff the content octets are equal -/
theorem skipIfPrimitive_run (expected c rest : Bytes) :
    runG0 (Oid.skipIfPrimitive expected) (St (c ++ rest) (some c.length)) =
      if c = expected then .ok ((), St rest (some 0)) else .error .content := by
  unfold Oid.skipIfPrimitive
  rw [run_withSliceAll]
  unfold sliceAllF
  simp only [List.length_append, Nat.le_add_right, if_true, take_window, drop_window]
  by_cases h : c = expected
  · simp [h]
  · have : (c == expected) = false := by simpa using h
    simp [h, this]

/-- followed by the framework's exhaustion check (`LimitedSource::exhausted`), as
    `process_next_value` runs them -/
theorem fromPrimitive_exhausted (c rest : Bytes) :
    runG0 (do let r ← Oid.fromPrimitive; limitedExhausted; pure r) (St (c ++ rest) (some c.length)) =
      if Oid.checkContent c then .ok (c, St rest (some 0)) else .error .content := by
  simp only [runG0_bind, fromPrimitive_run]
  cases Oid.checkContent c
  · rfl
  · simp [run_limitedExhausted]

theorem skipPrimitive_exhausted (c rest : Bytes) :
    runG0 (do Oid.skipPrimitive; limitedExhausted) (St (c ++ rest) (some c.length)) =
      if Oid.checkContent c then .ok ((), St rest (some 0)) else .error .content := by
  simp only [runG0_bind, skipPrimitive_run]
  cases Oid.checkContent c
  · rfl
  · simp [run_limitedExhausted]

theorem skipIfPrimitive_exhausted (expected c rest : Bytes) :
    runG0 (do Oid.skipIfPrimitive expected; limitedExhausted) (St (c ++ rest) (some c.length)) =
      if c = expected then .ok ((), St rest (some 0)) else .error .content := by
  simp only [runG0_bind, skipIfPrimitive_run]
  by_cases h : c = expected
  · simp [h, run_limitedExhausted]
  · simp [h]

/-- taking and skipping accept exactly the same contents, and taking returns the content octets
    themselves (so `==`, `Hash`, `skip_if` being by content octets is equality of these lists) -/
theorem take_skip_alike (c rest : Bytes) :
    (∃ r, runG0 Oid.fromPrimitive (St (c ++ rest) (some c.length)) = .ok r) ↔
    (∃ r, runG0 Oid.skipPrimitive (St (c ++ rest) (some c.length)) = .ok r) := by
  rw [fromPrimitive_run, skipPrimitive_run]
  cases Oid.checkContent c <;> simp

/-! ## 3. the component iterator -/

theorem subIdsAux_nil (cur : Bytes) : subIdsAux [] cur = if cur.isEmpty then some [] else none := by
  cases cur <;> rfl

/-- the first sub-identifier of a splittable content: where `Iter::next` finds its end, and what
    the reference splitter does with it -/
theorem split_first (slice : Bytes) : ∀ (cur : Bytes) (k : Nat) (l : List Bytes), slice ≠ [] →
    subIdsAux slice cur = some l →
    ∃ i l', Oid.findEnd slice k = some (k + i) ∧ i < slice.length ∧
      l = (cur ++ slice.take (i + 1)) :: l' ∧ subIdsAux (slice.drop (i + 1)) [] = some l' := by
  induction slice with
  | nil => intro cur k l h; exact absurd rfl h
  | cons b rest ih =>
    intro cur k l _ h
    simp only [subIdsAux] at h
    by_cases hb : b.toNat < 128
    · simp only [hb, if_true] at h
      cases hr : subIdsAux rest [] with
      | none => simp [hr] at h
      | some l' =>
        simp [hr] at h
        refine ⟨0, l', ?_, by simp, ?_, ?_⟩
        · simp [Oid.findEnd, byte_and80_eq0, hb]
        · simp [← h]
        · simpa using hr
    · simp only [hb, if_false] at h
      have hne : rest ≠ [] := by
        intro e; subst e; rw [subIdsAux_nil] at h; simp at h
      obtain ⟨i, l', h1, h2, h3, h4⟩ := ih (cur ++ [b]) (k + 1) l hne h
      refine ⟨i + 1, l', ?_, by simp; omega, ?_, ?_⟩
      · simp only [Oid.findEnd, byte_and80_eq0, hb, decide_false, Bool.false_eq_true, if_false]
        rw [h1]; congr 1; omega
      · rw [h3]; simp
      · simpa using h4

theorem iterNext_some (slice : Bytes) (pos : Oid.Position) (i : Nat) (hne : slice ≠ [])
    (h : Oid.findEnd slice 0 = some i) :
    Oid.iterNext slice pos = .ok (some ((pos, slice.take (i + 1)),
      (if pos != .first then slice.drop (i + 1) else slice,
       match pos with | .first => Oid.Position.second | _ => Oid.Position.other))) := by
  unfold Oid.iterNext
  have : slice.isEmpty = false := by cases slice with
    | nil => exact absurd rfl hne
    | cons _ _ => rfl
  simp only [this, Bool.false_eq_true, if_false, h]
  cases pos <;> rfl

theorem componentsAux_step (fuel : Nat) (slice : Bytes) (pos : Oid.Position) (i : Nat) (hne : slice ≠ [])
    (h : Oid.findEnd slice 0 = some i) :
    Oid.componentsAux (fuel + 1) slice pos =
      (Oid.componentsAux fuel (if pos != .first then slice.drop (i + 1) else slice)
        (match pos with | .first => Oid.Position.second | _ => Oid.Position.other)).map
        ((pos, slice.take (i + 1)) :: ·) := by
  simp only [Oid.componentsAux, iterNext_some slice pos i hne h]
  rfl

theorem componentsAux_nil (fuel : Nat) (pos : Oid.Position) :
    Oid.componentsAux (fuel + 1) [] pos = .ok [] := rfl

theorem componentsAux_other : ∀ (fuel : Nat) (slice : Bytes) (l : List Bytes), slice.length < fuel →
    subIdsAux slice [] = some l →
    Oid.componentsAux fuel slice .other = .ok (l.map fun s => (Oid.Position.other, s)) := by
  intro fuel
  induction fuel with
  | zero => intro slice l h; omega
  | succ fuel ih =>
    intro slice l hf hs
    by_cases hne : slice = []
    · subst hne
      rw [subIdsAux_nil] at hs; simp at hs; subst hs; rfl
    · obtain ⟨i, l', h1, h2, h3, h4⟩ := split_first slice [] 0 l hne hs
      simp only [Nat.zero_add] at h1
      rw [componentsAux_step fuel slice .other i hne h1]
      have hlen : (slice.drop (i + 1)).length < fuel := by simp; omega
      have := ih (slice.drop (i + 1)) l' hlen h4
      simp only [show (Oid.Position.other != Oid.Position.first) = true from rfl, if_true]
      rw [this, h3]
      rfl

/-- what the iterator yields for the sub-identifiers `l`: the first one twice (as first and second
    component), then the others -/
def compsOf : List Bytes → List (Oid.Position × Bytes)
  | [] => []
  | s0 :: rest => (.first, s0) :: (.second, s0) :: rest.map fun s => (Oid.Position.other, s)

/-- **C20, iterator.**  On every accepted content the component iterator terminates without a
    panic (and within the model's fuel) and yields exactly the sub-identifiers of the reference
    splitter, the first one twice. -/
theorem components_eq (c : Bytes) (l : List Bytes) (h : subIds c = some l) :
    Oid.components c = .ok (compsOf l) := by
  unfold subIds at h
  by_cases hne : c = []
  · subst hne; simp at h
  · have he : c.isEmpty = false := by cases c with
      | nil => exact absurd rfl hne
      | cons _ _ => rfl
    simp only [he, Bool.false_eq_true, if_false] at h
    obtain ⟨i, l', h1, h2, h3, h4⟩ := split_first c [] 0 l hne h
    simp only [Nat.zero_add] at h1
    unfold Oid.components
    rw [componentsAux_step (c.length + 1) c .first i hne h1]
    simp only [show (Oid.Position.first != Oid.Position.first) = false from rfl, Bool.false_eq_true, if_false]
    rw [componentsAux_step c.length c .second i hne h1]
    simp only [show (Oid.Position.second != Oid.Position.first) = true from rfl, if_true]
    have hlen : (c.drop (i + 1)).length < c.length := by simp; omega
    rw [componentsAux_other c.length (c.drop (i + 1)) l' hlen h4, h3]
    rfl

theorem components_accepted (c : Bytes) (h : Oid.checkContent c = true) :
    ∃ s0 rest, subIds c = some (s0 :: rest) ∧
      Oid.components c = .ok ((.first, s0) :: (.second, s0) :: rest.map fun s => (Oid.Position.other, s)) := by
  rw [checkContent_eq_subIds] at h
  cases hs : subIds c with
  | none => simp [hs] at h
  | some l =>
    have hc := components_eq c l hs
    cases l with
    | nil =>
      exfalso
      unfold subIds at hs
      cases c with
      | nil => simp at hs
      | cons b t =>
        simp only [List.isEmpty_cons, Bool.false_eq_true, if_false] at hs
        obtain ⟨i, l', _, _, h3, _⟩ := split_first (b :: t) [] 0 [] (by simp) hs
        cases h3
    | cons s0 rest => exact ⟨s0, rest, rfl, hc⟩

/-! ### `Component::to_u32` -/

/-- the loop body of `to_u32` (u32 arithmetic) -/
def stepT (res : Nat) (ch : UInt8) : Nat := ((res <<< 7) % 2 ^ 32) ||| (ch &&& 0x7F).toNat
/-- the loop body of the reference value -/
def stepV (acc : Nat) (b : UInt8) : Nat := acc * 128 + b.toNat % 128

theorem subIdValue_def (s : Bytes) : subIdValue s = s.foldl stepV 0 := rfl

theorem stepT_eq (res : Nat) (ch : UInt8) (h : res * 128 < 2 ^ 32) : stepT res ch = stepV res ch := by
  unfold stepT stepV
  have e : res <<< 7 = res * 128 := by rw [Nat.shiftLeft_eq]
  have hm : (res <<< 7) % 2 ^ 32 = res <<< 7 := Nat.mod_eq_of_lt (by rw [e]; exact h)
  rw [hm, byte_and7f, shl_or res (ch.toNat % 128) 7 (Nat.mod_lt _ (by decide))]

theorem foldl_stepV_mono (s : Bytes) : ∀ a, a ≤ s.foldl stepV a := by
  induction s with
  | nil => intro a; exact Nat.le_refl _
  | cons b s ih =>
    intro a
    have := ih (stepV a b)
    simp only [List.foldl]
    unfold stepV at this ⊢
    omega

/-- as long as the value fits in 32 bits the wrapping loop computes it exactly -/
theorem foldl_stepT_eq (s : Bytes) : ∀ a, s.foldl stepV a < 2 ^ 32 → s.foldl stepT a = s.foldl stepV a := by
  induction s with
  | nil => intro a _; rfl
  | cons b s ih =>
    intro a h
    simp only [List.foldl] at h ⊢
    have hm := foldl_stepV_mono s (stepV a b)
    have : a * 128 < 2 ^ 32 := by unfold stepV at hm; omega
    rw [stepT_eq a b this]
    exact ih _ h

/-- the arc(s) a component stands for, from the value of its sub-identifier
    (X.690 8.19.4: the first sub-identifier is `40 * arc₁ + arc₂`) -/
def arcOf (pos : Oid.Position) (v : Nat) : Nat :=
  match pos with
  | .first => if v < 40 then 0 else if v < 80 then 1 else 2
  | .second => if v < 80 then v % 40 else v - 80
  | .other => v

theorem byte_and70_ne0 (b : UInt8) : ((b &&& 0x70) != 0) = decide (16 ≤ b.toNat % 128) := by
  revert b; apply UInt8.forall_bv; decide

/-- `to_u32` reports "too large" exactly for more than five octets, or five octets with one of
    the bits 5–7 of the first set -/
def tooLarge (s0 : UInt8) (t : Bytes) : Prop := t.length + 1 > 5 ∨ (t.length + 1 = 5 ∧ 16 ≤ s0.toNat % 128)
instance (s0 : UInt8) (t : Bytes) : Decidable (tooLarge s0 t) := by unfold tooLarge; exact inferInstance

theorem toU32_unfold (pos : Oid.Position) (s0 : UInt8) (t : Bytes) :
    Oid.toU32 pos (s0 :: t) =
      if tooLarge s0 t then none else some (arcOf pos ((s0 :: t).foldl stepT 0)) := by
  unfold Oid.toU32 tooLarge
  simp only [List.length_cons, byte_and70_ne0]
  by_cases h : t.length + 1 > 5 ∨ (t.length + 1 = 5 ∧ 16 ≤ s0.toNat % 128)
  · have : (decide (t.length + 1 > 5) || (t.length + 1 == 5 && decide (16 ≤ s0.toNat % 128))) = true := by
      simpa using h
    simp only [this, if_true, h]
  · have : (decide (t.length + 1 > 5) || (t.length + 1 == 5 && decide (16 ≤ s0.toNat % 128))) = false := by
      simpa using h
    simp only [this, Bool.false_eq_true, if_false, h]
    cases pos <;> rfl

theorem value_fits (s0 : UInt8) (t : Bytes) (h : ¬ tooLarge s0 t) : subIdValue (s0 :: t) < 2 ^ 32 := by
  unfold tooLarge at h
  rw [subIdValue_def]
  rcases t with _ | ⟨b, _ | ⟨c, _ | ⟨d, _ | ⟨e, _ | ⟨f, t⟩⟩⟩⟩⟩
  · simp only [List.foldl, stepV]; omega
  · simp only [List.foldl, stepV]; omega
  · simp only [List.foldl, stepV]; omega
  · simp only [List.foldl, stepV]; omega
  · simp only [List.foldl, stepV]
    simp only [List.length_cons, List.length_nil] at h
    omega
  · simp only [List.length_cons] at h; omega

/-- **`to_u32`, every non-empty component** (minimal or not): either "too large", or exactly the
    arc determined by the sub-identifier's value — never a wrong number -/
theorem toU32_eq (pos : Oid.Position) (s0 : UInt8) (t : Bytes) :
    Oid.toU32 pos (s0 :: t) =
      if tooLarge s0 t then none else some (arcOf pos (subIdValue (s0 :: t))) := by
  rw [toU32_unfold]
  by_cases h : tooLarge s0 t
  · simp only [h, if_true]
  · simp only [h, if_false]
    have := value_fits s0 t h
    rw [subIdValue_def] at this ⊢
    rw [foldl_stepT_eq _ 0 this]

end Bcder.Props.C20
