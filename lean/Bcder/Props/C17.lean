/-
  C17 — String comparison and hashing depend on content only, not on segmentation.

  An `OS` value is whatever `OctetString::from_content` produced: a primitive content or the
  captured content of a constructed encoding.  `OS.octets` is the octet sequence its iterator
  yields (C16 relates it to the encoding: the concatenation of the primitive segments).
  The theorems say that ==, cmp, partial_cmp with slices and the hash feed are functions of that
  octet sequence alone, whatever the segmentation of either side.
-/
import Bcder.Model.Octet
import Bcder.Spec.Values
import Bcder.Lemmas.Bytes
namespace Bcder.Props.C17
open Bcder

/-- the model's `Iterator::cmp` on octets is the reference lexicographic order -/
theorem lexCmp_eq_spec (x y : Bytes) : OS.lexCmp x y = Spec.lexCompare x y := by
  induction x generalizing y with
  | nil => cases y <;> simp [OS.lexCmp, Spec.lexCompare]
  | cons a as ih =>
    cases y with
    | nil => simp [OS.lexCmp, Spec.lexCompare]
    | cons b bs =>
      simp only [OS.lexCmp, Spec.lexCompare, ih bs]
      have h1 : (a < b) = (a.toNat < b.toNat) := by simp [UInt8.lt_iff_toNat_lt]
      have h2 : (a > b) = (a.toNat > b.toNat) := by simp [GT.gt, UInt8.lt_iff_toNat_lt]
      simp only [h1, h2]

/-- the reference order is equality exactly on equal contents -/
theorem lexCompare_eq_iff (x y : Bytes) : Spec.lexCompare x y = .eq ↔ x = y := by
  induction x generalizing y with
  | nil => cases y <;> simp [Spec.lexCompare]
  | cons a as ih =>
    cases y with
    | nil => simp [Spec.lexCompare]
    | cons b bs =>
      simp only [Spec.lexCompare]
      by_cases h1 : a.toNat < b.toNat
      · simp [h1]; intro h; subst h; omega
      · by_cases h2 : a.toNat > b.toNat
        · simp [h1, h2]; intro h; subst h; omega
        · have : a = b := UInt8.toNat_inj.mp (by omega)
          simp [h1, h2, ih bs, this]

/-- `asSlice` is the octets of a primitive value -/
theorem asSlice_octets (a : OS) (l : Bytes) (h : a.asSlice = some l) : a.octets = .ok l := by
  cases a with
  | prim b => simp [OS.asSlice] at h; subst h; rfl
  | cons c => simp [OS.asSlice] at h

/-- C17 (==) — two strings are equal exactly when their contents are, however either is segmented -/
theorem eq_iff_content (a b : OS) (x y : Bytes) (ha : a.octets = .ok x) (hb : b.octets = .ok y) :
    OS.eq a b = .ok (x == y) := by
  unfold OS.eq
  cases ha' : a.asSlice with
  | none => simp [ha, hb, bind, Except.bind, pure, Except.pure]
  | some l =>
    cases hb' : b.asSlice with
    | none => simp [ha, hb, bind, Except.bind, pure, Except.pure]
    | some r =>
      have := asSlice_octets a l ha'; rw [ha] at this
      have h2 := asSlice_octets b r hb'; rw [hb] at h2
      cases this; cases h2
      simp [pure, Except.pure]

/-- C17 (cmp) — ordering is lexicographic on the contents -/
theorem cmp_content (a b : OS) (x y : Bytes) (ha : a.octets = .ok x) (hb : b.octets = .ok y) :
    OS.cmp a b = .ok (Spec.lexCompare x y) := by
  unfold OS.cmp
  cases ha' : a.asSlice with
  | none => simp [ha, hb, bind, Except.bind, pure, Except.pure, lexCmp_eq_spec]
  | some l =>
    cases hb' : b.asSlice with
    | none => simp [ha, hb, bind, Except.bind, pure, Except.pure, lexCmp_eq_spec]
    | some r =>
      have := asSlice_octets a l ha'; rw [ha] at this
      have h2 := asSlice_octets b r hb'; rw [hb] at h2
      cases this; cases h2
      simp [pure, Except.pure, lexCmp_eq_spec]

/-- C17 (== with a slice) -/
theorem eqSlice_content (a : OS) (x t : Bytes) (ha : a.octets = .ok x) :
    OS.eqSlice a t = .ok (x == t) := by
  unfold OS.eqSlice
  cases ha' : a.asSlice with
  | none => simp [ha, bind, Except.bind, pure, Except.pure]
  | some l =>
    have := asSlice_octets a l ha'; rw [ha] at this
    cases this
    simp [pure, Except.pure]

/-- C17 (partial_cmp with a slice) -/
theorem cmpSlice_content (a : OS) (x t : Bytes) (ha : a.octets = .ok x) :
    OS.cmpSlice a t = .ok (Spec.lexCompare x t) := by
  unfold OS.cmpSlice
  cases ha' : a.asSlice with
  | none => simp [ha, bind, Except.bind, pure, Except.pure, lexCmp_eq_spec]
  | some l =>
    have := asSlice_octets a l ha'; rw [ha] at this
    cases this
    simp [pure, Except.pure, lexCmp_eq_spec]

theorem foldl_len (segs : List Bytes) (n : Nat) :
    segs.foldl (fun l x => l + x.length) n = n + segs.flatten.length := by
  induction segs generalizing n with
  | nil => simp
  | cons s ss ih => simp [List.foldl, ih]; omega

/-- `len` is the length of the content -/
theorem len_content (a : OS) (x : Bytes) (ha : a.octets = .ok x) : a.len = .ok x.length := by
  cases a with
  | prim b => simp [OS.octets, pure, Except.pure] at ha; subst ha; rfl
  | cons c =>
    simp only [OS.octets, OS.len, bind, Except.bind] at ha ⊢
    cases hs : OS.segments (.cons c) with
    | error e => simp [hs] at ha
    | ok segs =>
      simp [hs, pure, Except.pure] at ha ⊢
      subst ha
      simpa using foldl_len segs 0

/-- C17 (hash) — equal contents feed the hasher identically, whatever the segmentation -/
theorem hash_content (a b : OS) (x : Bytes) (ha : a.octets = .ok x) (hb : b.octets = .ok x) :
    OS.hashFeed a = OS.hashFeed b := by
  simp [OS.hashFeed, ha, hb, len_content a x ha, len_content b x hb, bind, Except.bind]

/-- what the hasher is fed is (length, octets) of the content -/
theorem hashFeed_content (a : OS) (x : Bytes) (ha : a.octets = .ok x) :
    OS.hashFeed a = .ok (x.length, x) := by
  simp [OS.hashFeed, ha, len_content a x ha, bind, Except.bind, pure, Except.pure]

/-- non-vacuity: a segmented value and a primitive value with the same content -/
example : (OS.cons [0x04, 0x01, 0x61, 0x04, 0x00, 0x04, 0x01, 0x62]).octets = .ok [0x61, 0x62]
    ∧ (OS.prim [0x61, 0x62]).octets = .ok [0x61, 0x62] := by
  constructor <;> rfl


/-! ### `Ord` is a lawful total order (session 5) -/

theorem lexCompare_swap (x y : Bytes) : Spec.lexCompare y x = (Spec.lexCompare x y).swap := by
  induction x generalizing y with
  | nil => cases y <;> simp [Spec.lexCompare]
  | cons a as ih =>
    cases y with
    | nil => simp [Spec.lexCompare]
    | cons b bs =>
      simp only [Spec.lexCompare]
      by_cases h1 : a.toNat < b.toNat
      · have : ¬ b.toNat < a.toNat := by omega
        simp [h1, this]
      · by_cases h2 : b.toNat < a.toNat
        · simp [h1, h2]
        · simp [h1, h2, ih]

theorem lexCompare_trans_lt (x y z : Bytes) (h1 : Spec.lexCompare x y = .lt)
    (h2 : Spec.lexCompare y z = .lt) : Spec.lexCompare x z = .lt := by
  induction x generalizing y z with
  | nil =>
    cases y with
    | nil => simp [Spec.lexCompare] at h1
    | cons b bs => cases z with
      | nil => simp [Spec.lexCompare] at h2
      | cons c cs => simp [Spec.lexCompare]
  | cons a as ih =>
    cases y with
    | nil => simp [Spec.lexCompare] at h1
    | cons b bs =>
      cases z with
      | nil => simp [Spec.lexCompare] at h2
      | cons c cs =>
        simp only [Spec.lexCompare] at h1 h2 ⊢
        by_cases hab : a.toNat < b.toNat
        · by_cases hbc : b.toNat < c.toNat
          · have : a.toNat < c.toNat := by omega
            simp [this]
          · by_cases hcb : b.toNat > c.toNat
            · simp [hbc, hcb] at h2
            · have : a.toNat < c.toNat := by omega
              simp [this]
        · by_cases hba : a.toNat > b.toNat
          · simp [hab, hba] at h1
          · simp only [hab, hba, if_false] at h1
            have hab' : a.toNat = b.toNat := by omega
            by_cases hbc : b.toNat < c.toNat
            · have : a.toNat < c.toNat := by omega
              simp [this]
            · by_cases hcb : b.toNat > c.toNat
              · simp [hbc, hcb] at h2
              · simp only [hbc, hcb, if_false] at h2
                have e1 : ¬ a.toNat < c.toNat := by omega
                have e2 : ¬ a.toNat > c.toNat := by omega
                simp only [e1, e2, if_false]
                exact ih bs cs h1 h2

/-- C17 — `Ord` on octet strings is a lawful total order on the contents, whatever the segmentation
of the three values: antisymmetric (`cmp b a` is the reverse of `cmp a b`), transitive, and `Equal`
exactly where `==` holds. -/
theorem cmp_swap (a b : OS) (x y : Bytes) (ha : a.octets = .ok x) (hb : b.octets = .ok y) :
    ∃ o, OS.cmp a b = .ok o ∧ OS.cmp b a = .ok o.swap :=
  ⟨_, cmp_content a b x y ha hb, by rw [cmp_content b a y x hb ha, lexCompare_swap]⟩

theorem cmp_trans (a b c : OS) (x y z : Bytes) (ha : a.octets = .ok x) (hb : b.octets = .ok y)
    (hc : c.octets = .ok z) (h1 : OS.cmp a b = .ok .lt) (h2 : OS.cmp b c = .ok .lt) :
    OS.cmp a c = .ok .lt := by
  rw [cmp_content a b x y ha hb] at h1
  rw [cmp_content b c y z hb hc] at h2
  rw [cmp_content a c x z ha hc]
  injection h1 with h1; injection h2 with h2
  rw [lexCompare_trans_lt x y z h1 h2]

theorem cmp_eq_iff_eq (a b : OS) (x y : Bytes) (ha : a.octets = .ok x) (hb : b.octets = .ok y) :
    OS.cmp a b = .ok .eq ↔ OS.eq a b = .ok true := by
  rw [cmp_content a b x y ha hb, eq_iff_content a b x y ha hb]
  constructor
  · intro h; injection h with h; simp [(lexCompare_eq_iff x y).mp h]
  · intro h; injection h with h
    have : x = y := by simpa using h
    simp [(lexCompare_eq_iff x y).mpr this]

example : OS.cmp (OS.cons [0x04, 0x01, 0x61, 0x04, 0x00, 0x04, 0x01, 0x62]) (OS.prim [0x61, 0x63]) = .ok .lt := by
  rw [cmp_content _ _ [0x61, 0x62] [0x61, 0x63] rfl rfl]; rfl

end Bcder.Props.C17
