/-
  C11 — Captured data is exactly the encoding of the values advanced over.

  Proved here (for every closure that does not itself open a nested capture):
   * `capture_exact`   — `Constructed::capture` returns exactly the octets the closure advanced
                         over, decoding continues immediately after them, the enclosing limit is
                         reduced by exactly that amount, and an enclosing capture sees them too;
   * `capture_one_exact`, `capture_all_exact` — the same for `capture_one` / `capture_all`.
  What the octets advanced over ARE (complete encodings of the values read) is the frame lemma of
  C02.  The clause "never the end-of-contents marker of the enclosing value" is REFUTED for the
  code as it is (recorded known finding D12): `eoc_counterexample`.
-/
import Bcder.Lemmas.Frame
import Bcder.Lemmas.NoCap
namespace Bcder.Props.C11
open Bcder Prog

theorem uses_of_nocap {p : Prog α} (h : NoCap p) : Uses Op.notCap p := by
  induction h with
  | ret a => exact Uses.ret a
  | fail e => exact Uses.fail e
  | op o k h1 h2 _ ih =>
    refine Uses.op o k ?_ ih
    cases o <;> simp_all [Op.notCap]

/-- the enclosing capture frames after an inner capture of `bytes` has ended -/
def parentFrames (fs : List Frame) (bytes : Bytes) : List Frame :=
  match fs with
  | [] => []
  | f :: fs => { f with buf := f.buf ++ bytes } :: fs

/-- a program that only moves forward and leaves, in the innermost open capture frame, exactly the
    octets it moved over (capture-free programs: `run_consumed`; captures themselves: `tracks_capture`;
    sequencing: `tracks_bind`) -/
def Tracks (p : Prog α) : Prop :=
  ∀ (g : G) (a : α) (g' : G), runG p g = .ok (a, g') → ∃ k, Consumed g g' k

theorem tracks_of_uses (p : Prog α) (hp : Uses Op.notCap p) : Tracks p := run_consumed p hp

theorem tracks_pure (a : α) : Tracks (pure a : Prog α) := by
  intro g a' g' h
  simp [runG_pure] at h
  rw [← h.2]; exact ⟨0, Consumed.refl g⟩

theorem tracks_bind (p : Prog α) (f : α → Prog β) (hp : Tracks p) (hf : ∀ a, Tracks (f a)) : Tracks (p >>= f) := by
  intro g b g' h
  simp only [runG_bind] at h
  cases hr : runG p g with
  | error e => simp [hr] at h
  | ok r =>
    obtain ⟨a, g1⟩ := r
    simp only [hr] at h
    obtain ⟨k1, c1⟩ := hp g a g1 hr
    obtain ⟨k2, c2⟩ := hf a g1 b g' h
    exact ⟨k1 + k2, c1.trans c2⟩

/-- C11.1 — `capture`, for every closure that tracks (in particular: closures that capture again) -/
theorem capture_exact_tracks (c : Cons) (op : Cons → Prog Cons) (hop : ∀ c, Tracks (op c))
    (g : G) (bytes : Bytes) (c' : Cons) (g' : G)
    (h : runG (capture c op) g = .ok ((bytes, c'), g')) :
    ∃ k, k ≤ g.data.length ∧
      bytes = g.data.take (k - (if c'.state = c.state then 0 else c'.eoc)) ∧
      g'.data = g.data.drop k ∧
      g'.limit = g.limit.map (· - k) ∧
      g'.frames = parentFrames g.frames (g.data.take k) ∧
      c'.mode = c.mode := by
  unfold capture at h
  simp only [runG_bind] at h
  -- capBegin
  have hb : runG capBegin g = .ok ((), { g with frames := { buf := [], outer := g.limit } :: g.frames }) := by
    simp [capBegin, runG, stepG]
  rw [hb] at h
  simp only at h
  -- the closure
  cases ho : runG (op c) { g with frames := { buf := [], outer := g.limit } :: g.frames } with
  | error e => simp [ho] at h
  | ok r =>
    obtain ⟨c1, g1⟩ := r
    simp only [ho] at h
    obtain ⟨k, hk, hd, hf⟩ := hop c _ c1 g1 ho
    simp only at hk hd hf
    -- capEnd
    have hlen : (g.data.take k).length = k := by simp [List.length_take]; omega
    have he : runG capEnd g1 = match g.limit with
        | some l =>
          if l < k then .error (.panic "advanced past end of limit")
          else .ok (g.data.take k, { g1 with limit := some (l - k),
                                             frames := parentFrames g.frames (g.data.take k) })
        | none => .ok (g.data.take k, { g1 with limit := none,
                                                frames := parentFrames g.frames (g.data.take k) }) := by
      simp only [capEnd, runG, stepG, hf, List.nil_append, hlen, parentFrames]
      cases g.limit with
      | none => cases g.frames <;> rfl
      | some l =>
        by_cases hl : l < k
        · simp only [hl, if_true]
        · simp only [hl, if_false]; cases g.frames <;> rfl
    rw [he] at h
    cases hlim : g.limit with
    | none =>
      simp [hlim, runG] at h
      obtain ⟨⟨h1, h2⟩, h3⟩ := h
      subst h2; subst h3
      refine ⟨k, hk, ?_, hd, by simp, rfl, rfl⟩
      rw [← h1]
      by_cases hs : c1.state = c.state
      · simp [hs]
      · simp only [hs, if_false]; rw [List.take_take]; congr 1; omega
    | some l =>
      simp only [hlim] at h
      by_cases hl : l < k
      · simp [hl] at h
      · simp [hl, runG] at h
        obtain ⟨⟨h1, h2⟩, h3⟩ := h
        subst h2; subst h3
        refine ⟨k, hk, ?_, hd, by simp, rfl, rfl⟩
        rw [← h1]
        by_cases hs : c1.state = c.state
        · simp [hs]
        · simp only [hs, if_false]; rw [List.take_take]; congr 1; omega

/-- C11.1 — `capture` with a capture-free closure -/
theorem capture_exact (c : Cons) (op : Cons → Prog Cons) (hop : ∀ c, Uses Op.notCap (op c))
    (g : G) (bytes : Bytes) (c' : Cons) (g' : G)
    (h : runG (capture c op) g = .ok ((bytes, c'), g')) :
    ∃ k, k ≤ g.data.length ∧
      bytes = g.data.take (k - (if c'.state = c.state then 0 else c'.eoc)) ∧
      g'.data = g.data.drop k ∧
      g'.limit = g.limit.map (· - k) ∧
      g'.frames = parentFrames g.frames (g.data.take k) ∧
      c'.mode = c.mode :=
  capture_exact_tracks c op (fun c => tracks_of_uses _ (hop c)) g bytes c' g' h

/-- a capture tracks: seen from outside it is one forward move over what its closure moved over
    (so captures nest to any depth: `capture_exact_tracks` applies to closures built with
    `tracks_bind` from capture-free parts and further captures) -/
theorem tracks_capture (c : Cons) (op : Cons → Prog Cons) (hop : ∀ c, Tracks (op c)) :
    Tracks (capture c op) := by
  intro g a g' h
  obtain ⟨bytes, c'⟩ := a
  obtain ⟨k, h1, _, h3, _, h5, _⟩ := capture_exact_tracks c op hop g bytes c' g' h
  refine ⟨k, h1, h3, ?_⟩
  rw [h5]
  cases g.frames <;> rfl

/-- C11.1 — `capture_one` -/
theorem capture_one_exact (c : Cons) (fuel : Nat) (g : G) (bytes : Bytes) (c' : Cons) (g' : G)
    (h : runG (captureOne c fuel) g = .ok ((bytes, c'), g')) :
    ∃ k, k ≤ g.data.length ∧ bytes = g.data.take (k - (if c'.state = c.state then 0 else c'.eoc)) ∧
      g'.data = g.data.drop k ∧ g'.limit = g.limit.map (· - k) := by
  obtain ⟨k, h1, h2, h3, h4, _, _⟩ := capture_exact c _ (fun c => by
    apply uses_of_nocap
    have := nocap_mandatory _ (nocap_skipOne c fuel)
    nocap) g bytes c' g' h
  exact ⟨k, h1, h2, h3, h4⟩

/-- C11.1 — `capture_all` -/
theorem capture_all_exact (c : Cons) (fuel : Nat) (g : G) (bytes : Bytes) (c' : Cons) (g' : G)
    (h : runG (captureAll c fuel) g = .ok ((bytes, c'), g')) :
    ∃ k, k ≤ g.data.length ∧ bytes = g.data.take (k - (if c'.state = c.state then 0 else c'.eoc)) ∧
      g'.data = g.data.drop k ∧ g'.limit = g.limit.map (· - k) := by
  obtain ⟨k, h1, h2, h3, h4, _, _⟩ := capture_exact c _ (fun c => uses_of_nocap (nocap_skipAll fuel c))
    g bytes c' g' h
  exact ⟨k, h1, h2, h3, h4⟩

/-- C11.2 — never the end-of-contents marker of the enclosing value (the witness of the former
    defect D12): inside the indefinite-length value `30 80 05 00 00 00`, `capture_all` over the
    content `05 00 00 00` returns the NULL value WITHOUT the two end-of-contents octets, although
    the closure has advanced over them (the source is behind them, the state is done). -/
theorem eoc_not_captured :
    runG (captureAll ⟨.indefinite, .ber, 0⟩ 8) { data := [0x05, 0x00, 0x00, 0x00], limit := none } =
      .ok (([0x05, 0x00], ⟨.done, .ber, 2⟩), { data := [], limit := none }) := by
  rfl

/-! ### captures inside a capture -/

theorem tracks_captureOne (c : Cons) (fuel : Nat) : Tracks (captureOne c fuel) :=
  tracks_capture c _ (fun c => tracks_of_uses _ (by
    apply uses_of_nocap
    have := nocap_mandatory _ (nocap_skipOne c fuel)
    nocap))

theorem tracks_captureAll (c : Cons) (fuel : Nat) : Tracks (captureAll c fuel) :=
  tracks_capture c _ (fun c => tracks_of_uses _ (uses_of_nocap (nocap_skipAll fuel c)))

/-- a closure that captures two values one after the other, each with its own `capture_one` -/
def twoCaptures (fuel : Nat) (c : Cons) : Prog Cons := do
  let (_, c1) ← captureOne c fuel
  let (_, c2) ← captureOne c1 fuel
  pure c2

theorem tracks_twoCaptures (fuel : Nat) (c : Cons) : Tracks (twoCaptures fuel c) := by
  unfold twoCaptures
  refine tracks_bind _ _ (tracks_captureOne c fuel) (fun r => ?_)
  obtain ⟨_, c1⟩ := r
  refine tracks_bind _ _ (tracks_captureOne c1 fuel) (fun r2 => ?_)
  obtain ⟨_, c2⟩ := r2
  exact tracks_pure c2

/-- **C11.1 for nested captures**: a capture whose closure captures again returns exactly the
    octets the closure advanced over (minus the enclosing end-of-contents marker), whatever capture
    frames are open around it -/
theorem nested_capture_exact (c : Cons) (fuel : Nat) (g : G) (bytes : Bytes) (c' : Cons) (g' : G)
    (h : runG (capture c (twoCaptures fuel)) g = .ok ((bytes, c'), g')) :
    ∃ k, k ≤ g.data.length ∧ bytes = g.data.take (k - (if c'.state = c.state then 0 else c'.eoc)) ∧
      g'.data = g.data.drop k ∧ g'.limit = g.limit.map (· - k) ∧
      g'.frames = parentFrames g.frames (g.data.take k) := by
  obtain ⟨k, h1, h2, h3, h4, h5, _⟩ := capture_exact_tracks c _ (tracks_twoCaptures fuel) g bytes c' g' h
  exact ⟨k, h1, h2, h3, h4, h5⟩

/-- non-vacuity, by kernel evaluation: NULL and BOOLEAN captured one by one inside a capture, with
    a third value left over -/
theorem nested_example :
    runG (capture ⟨.unbounded, .der, 0⟩ (twoCaptures 8)) { data := [0x05, 0x00, 0x01, 0x01, 0xff, 0x02, 0x01, 0x07], limit := none } =
      .ok (([0x05, 0x00, 0x01, 0x01, 0xff], ⟨.unbounded, .der, 0⟩), { data := [0x02, 0x01, 0x07], limit := none }) := by
  rfl

end Bcder.Props.C11
