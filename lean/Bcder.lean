-- This module serves as the root of the `Bcder` library.
-- Import modules here that should be built as part of the library.
import Bcder.Basic
